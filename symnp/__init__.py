"""SymNP: bounded symbolic execution of the real emd code on numpy object arrays of z3-backed scalars."""
