"""Environment stubs: numpy proxy, scipy.interpolate / sparse / signal / spatial models, multiprocessing and RNG models.

Stubs are installed by rebinding module-level names of the emd modules inside the harness process
(no repository edit) and removed again for concrete replays.  Every stub passes purely concrete
arguments straight through to the real library.
"""
import contextlib
import math
from fractions import Fraction

import numpy as real_np
import scipy.interpolate as real_interp
import scipy.sparse as real_sparse
import scipy.signal as real_signal
import z3

from . import core
from .core import SymReal, SymInt, SymBool, lift, is_symbolic, PathAbort

np = real_np

USED = set()     # names of stubs exercised on this path/run (reported in evidence)


def _used(name):
    USED.add(name)


def has_sym(*xs):
    """does any argument hold a Sym object (constant or not) or is it an object array?"""
    for x in xs:
        if isinstance(x, (SymReal, SymBool)):
            return True
        if isinstance(x, np.ndarray) and x.dtype == object:
            return True
        if isinstance(x, (list, tuple)) and has_sym(*x):
            return True
    return False


# ======================================================================================================
#  object arrays with sticky astype
# ======================================================================================================

class SymArray(np.ndarray):
    """dtype=object ndarray whose astype() never leaves the object domain for numeric targets."""

    def __array_wrap__(self, arr, context=None, return_scalar=False):
        # reductions of ndarray subclasses come back as 0-d arrays; unwrap them like plain ndarrays do
        if arr.ndim == 0:
            return arr[()]
        if isinstance(arr, np.ndarray) and not isinstance(arr, SymArray) and arr.dtype == object:
            return arr.view(SymArray)
        return arr

    def astype(self, dtype, *args, **kwargs):
        if self.dtype != object:
            return np.ndarray.astype(self, dtype, *args, **kwargs)
        try:
            dt = np.dtype(dtype)
        except TypeError:
            return np.ndarray.astype(self, dtype, *args, **kwargs)
        if dt.kind == 'b':
            out = np.empty(self.shape, dtype=bool)
            for idx in np.ndindex(self.shape):
                out[idx] = bool(self[idx])
            return out
        if dt.kind not in 'iuf':
            return np.ndarray.astype(self, dtype, *args, **kwargs)
        out = np.empty(self.shape, dtype=object).view(SymArray)
        for idx in np.ndindex(self.shape):
            v = self[idx]
            if dt.kind in 'iu':
                if isinstance(v, SymReal):
                    v = v.trunc()
                elif isinstance(v, SymBool):
                    v = v.as_int()
                elif isinstance(v, float) and not math.isfinite(v):
                    raise ValueError("cannot convert float NaN/inf to integer")
                else:
                    v = int(v)
            elif dt.kind == 'f':
                if isinstance(v, SymBool):
                    v = v.as_int()
                elif not isinstance(v, SymReal):
                    v = float(v)
            out[idx] = v
        return out


def _fold(vals, pick_first):
    m = vals[0]
    for v in vals[1:]:
        lm, lv = lift(m), lift(v)
        if core._is_special(lm) or core._is_special(lv) or lm is NotImplemented or lv is NotImplemented:
            m = m if bool(pick_first(m, v)) else v
        elif lm.c is not None and lv.c is not None:
            m = m if pick_first(lm.c, lv.c) else v
        else:
            cond = pick_first(lm, lv)
            if isinstance(cond, (bool, np.bool_)):
                m = m if cond else v
            elif lm.is_int and lv.is_int:
                m = SymInt(z3.If(cond.t, lm.t, lv.t))
            else:
                m = SymReal(z3.If(cond.t, lm.rt, lv.rt))
    return m


def _sa_max(self, axis=None, out=None, **kw):
    if self.dtype == object and axis is None and out is None and self.size > 0 and not kw:
        return _fold(list(self.flat), lambda a, b: a >= b)
    return np.ndarray.max(self, axis=axis, out=out, **kw)


def _sa_min(self, axis=None, out=None, **kw):
    if self.dtype == object and axis is None and out is None and self.size > 0 and not kw:
        return _fold(list(self.flat), lambda a, b: a <= b)
    return np.ndarray.min(self, axis=axis, out=out, **kw)


def _sa_mean(self, axis=None, dtype=None, out=None, **kw):
    if self.dtype == object and self.size == 0 and out is None:
        # numpy float semantics: mean of an empty slice is nan (object arithmetic would raise ZeroDivisionError)
        if axis is None:
            return float('nan')
        shp = tuple(s for k, s in enumerate(self.shape) if k != (axis % self.ndim))
        return obj_full(shp, float('nan'))
    r = np.ndarray.mean(self, axis=axis, dtype=dtype, out=out, **kw)
    if isinstance(r, np.ndarray) and r.ndim == 0:
        r = r[()]
    return r


SymArray.max = _sa_max
SymArray.min = _sa_min
SymArray.mean = _sa_mean


class IntSymArray(SymArray):
    """object array standing in for an integer-dtype ndarray: values stored into it are truncated like numpy does"""

    def __setitem__(self, key, value):
        def tr(v):
            if isinstance(v, SymReal):
                return v.trunc()
            if isinstance(v, SymBool):
                return v.as_int()
            if isinstance(v, (float, np.floating)):
                if not math.isfinite(v):
                    raise ValueError("cannot convert float NaN to integer")
                return int(v)
            if isinstance(v, Fraction):
                return int(v)
            return v
        if isinstance(value, np.ndarray):
            conv = np.empty(value.shape, dtype=object)
            for idx in np.ndindex(value.shape):
                conv[idx] = tr(value[idx])
            value = conv
        elif isinstance(value, (list, tuple)):
            value = [tr(v) for v in value]
        else:
            value = tr(value)
        np.ndarray.__setitem__(self, key, value)

    # ---- result typing: integer (op) integer stays an integer array, anything involving a float operand or a true
    #      division is a float array (a plain SymArray: assignments into it do not truncate); storing a float result
    #      into an integer array in place is the casting error numpy raises
    bits = None      # None: int64 (never wraps within the bounds used); 8/16/32: fixed-width two's-complement wrap-around

    def __array_finalize__(self, obj):
        if obj is not None and getattr(obj, 'bits', None) is not None:
            self.bits = obj.bits

    def __array_ufunc__(self, ufunc, method, *inputs, out=None, **kw):
        args = tuple(i.view(SymArray) if isinstance(i, IntSymArray) else i for i in inputs)
        int_like = ufunc in _INT_PRESERVING and all(_int_operand(i) for i in inputs)
        widths = [i.bits for i in inputs if isinstance(i, IntSymArray)]
        width = None if (not widths or any(w is None for w in widths)) else max(widths)
        if out is not None:
            if any(isinstance(o, IntSymArray) for o in out) and not int_like and ufunc not in _COMPARISONS:
                raise TypeError("Cannot cast ufunc '%s' output from dtype('float64') to dtype('int64') with casting rule "
                                "'same_kind'" % ufunc.__name__)
            kw['out'] = tuple(o.view(SymArray) if isinstance(o, IntSymArray) else o for o in out)
        res = getattr(ufunc, method)(*args, **kw)
        if isinstance(res, np.ndarray) and res.dtype == object:
            if res.ndim == 0:
                return res[()]
            res = res.view(IntSymArray if int_like else SymArray)
            if int_like and width is not None and ufunc not in (np.maximum, np.minimum, np.sign):
                # narrow integer arithmetic wraps around (numpy computes in the array's own dtype)
                half, full = 2 ** (width - 1), 2 ** width
                flat = np.empty(res.shape, dtype=object)
                for idx in np.ndindex(res.shape):
                    v = res[idx]
                    flat[idx] = ((v + half) % full) - half
                res = flat.view(IntSymArray)
                res.bits = width
        elif out is not None and isinstance(res, np.ndarray):
            return out[0] if len(out) == 1 else out
        return res

    def astype(self, dtype, *args, **kwargs):
        r = SymArray.astype(self.view(SymArray), dtype, *args, **kwargs)
        try:
            if isinstance(r, np.ndarray) and r.dtype == object and np.dtype(dtype).kind in 'iu':
                return r.view(IntSymArray)
        except TypeError:
            pass
        return r


_INT_PRESERVING = {np.add, np.subtract, np.multiply, np.negative, np.positive, np.absolute, np.floor_divide, np.remainder,
                   np.maximum, np.minimum, np.sign, np.square}
_COMPARISONS = {np.less, np.less_equal, np.greater, np.greater_equal, np.equal, np.not_equal, np.logical_and, np.logical_or,
                np.logical_not, np.isnan, np.isfinite}


def _int_operand(v):
    if isinstance(v, IntSymArray):
        return True
    if isinstance(v, np.ndarray):
        if v.dtype == object:
            return False
        return v.dtype.kind in 'iub'
    if isinstance(v, (bool, int, np.integer, np.bool_, SymInt, SymBool)):
        return True
    return False


def int_array(values, bits=None):
    """an integer-dtype input array of solver integers (harness side); bits=8/16/32 models a narrow dtype whose arithmetic wraps"""
    a = np.empty(len(values), dtype=object)
    for i, v in enumerate(values):
        a[i] = v
    a = a.view(IntSymArray)
    if bits is not None:
        a.bits = bits
    return a


def obj_full(shape, value):
    if isinstance(shape, (int, np.integer)):
        shape = (int(shape),)
    a = np.empty(tuple(int(s) for s in shape), dtype=object)
    a.fill(value)
    return a.view(SymArray)


def as_obj(a):
    a = np.asarray(a)
    if a.dtype == object:
        return a
    out = np.empty(a.shape, dtype=object)
    for idx in np.ndindex(a.shape):
        out[idx] = a[idx].item()
    return out


# ======================================================================================================
#  linear operators obtained from the real library function on basis vectors
# ======================================================================================================

_LINOP_CACHE = {}


def linear_matrix(key, fn, n):
    """(M, c) with fn(v) == M @ v + c for all v of length n; validated on random vectors."""
    ck = (key, n)
    if ck in _LINOP_CACHE:
        return _LINOP_CACHE[ck]
    c = np.asarray(fn(np.zeros(n)), dtype=float)
    M = np.zeros((c.shape[0], n))
    for j in range(n):
        e = np.zeros(n)
        e[j] = 1.0
        M[:, j] = np.asarray(fn(e), dtype=float) - c
    rng = np.random.RandomState(12345)
    for _ in range(3):
        v = rng.randn(n) * 3
        if not np.allclose(np.asarray(fn(v), dtype=float), M.dot(v) + c, rtol=1e-9, atol=1e-9):
            _LINOP_CACHE[ck] = None
            return None
    _LINOP_CACHE[ck] = (M, c)
    return M, c


def apply_matrix(M, c, v):
    out = np.empty((M.shape[0],), dtype=object)
    for i in range(M.shape[0]):
        acc = lift(float(c[i])) if c[i] != 0 else SymInt(c=Fraction(0))
        for j in range(M.shape[1]):
            m = M[i, j]
            if m != 0:
                if float(m).is_integer():
                    acc = acc + v[j] * int(m)
                else:
                    # coefficients such as 1/3 (np.pad's 'mean') are the doubles nearest to a small rational: use the rational,
                    # so that the model is the mathematical operation and not one particular rounding of it
                    fr = Fraction(float(m)).limit_denominator(64)
                    if abs(float(fr) - float(m)) < 1e-13:
                        acc = acc + v[j] * lift(fr)
                    else:
                        acc = acc + v[j] * float(m)
        out[i] = acc
    return out.view(SymArray)


# ======================================================================================================
#  numpy proxy
# ======================================================================================================

class RandomStub(object):
    """Fork-aware model of the global numpy RNG: a draw is a vector of solver variables named by
    (stream id, position); copies of a state (fork) produce the same names, i.e. identical numbers."""

    def __init__(self):
        self.reset()

    def reset(self):
        self.state = ['s0', 0]     # [stream id, position]; `current` state object
        self.draws = []            # log of (stream, pos, kind, shape)
        self.concrete = None       # RandomState when the harness concretises the noise (recorded as a cut)

    def use_concrete(self, seed):
        """Concretise the RNG: draws are the doubles numpy's global generator yields after np.random.seed(seed)."""
        _used('np.random concretised to the stream of np.random.seed(%d) (cut: noise values are not symbolic here)' % seed)
        self.concrete = real_np.random.RandomState(seed)

    def _draw(self, kind, shape):
        if len(shape) == 1 and isinstance(shape[0], (tuple, list)):
            shape = tuple(shape[0])
        shape = tuple(int(s) for s in shape)
        if self.concrete is not None:
            if kind == 'normal':
                return self.concrete.standard_normal(shape if shape else None)
            return self.concrete.random_sample(shape if shape else None)
        _used('np.random (fork-aware stream model)')
        n = int(np.prod(shape)) if shape else 1
        sid, pos = self.state
        out = np.empty((n,), dtype=object)
        for i in range(n):
            v = z3.Real("rng_%s_%d" % (sid, pos + i))
            out[i] = SymReal(v)
            if kind == 'uniform':
                core.ctx().add(z3.And(v >= 0, v < 1))
        self.draws.append((sid, pos, kind, shape))
        self.state[1] = pos + n
        return out.reshape(shape).view(SymArray) if shape else out[0]

    def randn(self, *shape):
        return self._draw('normal', shape)

    def standard_normal(self, size=None):
        return self._draw('normal', (size,) if isinstance(size, int) else tuple(size or ()))

    def random_sample(self, size=None):
        return self._draw('uniform', (size,) if isinstance(size, int) else tuple(size or ()))

    random = random_sample
    rand = lambda self, *shape: self._draw('uniform', shape)  # noqa: E731

    def seed(self, *a, **k):
        v = a[0] if a else k.get('seed', '')
        if isinstance(v, (SymInt, SymReal)):
            v = v.t.sexpr() if v.c is None else v.c      # streams seeded with the same term are the same stream
        self.state = ['seed[%s]' % (v,), 0]

    def randint(self, low, high=None, size=None, dtype=int):
        if self.concrete is not None:
            return self.concrete.randint(low, high, size)
        if size is not None:
            raise PathAbort("np.random.randint stub: size unsupported", kind='engine-gap')
        if high is None:
            low, high = 0, low
        _used('np.random.randint (fork-aware stream model: one solver integer per draw)')
        sid, pos = self.state
        v = z3.Int("rngint_%s_%d" % (sid, pos))
        core.ctx().add(z3.And(v >= int(low), v < int(high)))
        self.draws.append((sid, pos, 'randint', ()))
        self.state[1] = pos + 1
        return SymInt(v)

    def fork_state(self):
        return list(self.state)


RNG = RandomStub()


class NPProxy(object):
    """Forwards every attribute to the installed numpy (raising the same AttributeError for names that
    numpy does not have) and overrides the entry points that cannot work on object arrays."""

    def __getattr__(self, name):
        return getattr(real_np, name)

    random = RNG

    # ---- constructors: object arrays so that symbolic values can be stored later
    @staticmethod
    def _want_obj(dtype):
        if dtype is None:
            return True
        try:
            k = np.dtype(dtype).kind
        except TypeError:
            return False
        return k in 'fiu'

    def zeros(self, shape, dtype=float, **kw):
        if self._want_obj(dtype):
            out = obj_full(shape, 0)
            try:
                if dtype is not None and np.dtype(dtype).kind in 'iu':
                    out = out.view(IntSymArray)      # assignments truncate, as they do for a real integer array
            except TypeError:
                pass
            return out
        return real_np.zeros(shape, dtype=dtype, **kw)

    def ones(self, shape, dtype=float, **kw):
        if self._want_obj(dtype):
            return obj_full(shape, 1)
        return real_np.ones(shape, dtype=dtype, **kw)

    def empty(self, shape, dtype=float, **kw):
        if self._want_obj(dtype):
            return obj_full(shape, 0)
        return real_np.empty(shape, dtype=dtype, **kw)

    def _to_obj_domain(self, a, dtype):
        """np.asarray/np.array(x, dtype=<numeric>) on symbolic data: stay in the object domain with the conversion's semantics"""
        try:
            kind = np.dtype(dtype).kind
        except TypeError:
            return None
        if kind not in 'fiub':
            return None
        arr = real_np.asarray(a, dtype=object)
        if not isinstance(arr, SymArray):
            arr = arr.view(SymArray)
        return arr.astype(dtype)

    def asarray(self, a, dtype=None, *args, **kw):
        if dtype is not None and has_sym(a):
            r = self._to_obj_domain(a, dtype)
            if r is not None:
                return r
        return real_np.asarray(a, dtype, *args, **kw)

    def ascontiguousarray(self, a, dtype=None, **kw):
        """numpy returns the caller's own array when it already is C-contiguous and of the requested dtype: an object array of
        solver reals stands for a float64 array, so for dtype None/float the result aliases a C-contiguous input"""
        if has_sym(a) and isinstance(a, real_np.ndarray) and a.dtype == object:
            want_float = dtype is None
            if not want_float:
                try:
                    want_float = np.dtype(dtype) == np.dtype(float)
                except TypeError:
                    want_float = False
            if isinstance(a, IntSymArray):
                if dtype is None:
                    return a if a.flags.c_contiguous else a.copy(order='C')
            elif want_float:
                return a if a.flags.c_contiguous else a.copy(order='C')
            r = self._to_obj_domain(a, dtype) if dtype is not None else None
            if r is not None:
                return real_np.ascontiguousarray(r) if not r.flags.c_contiguous else r
        return real_np.ascontiguousarray(a, dtype=dtype, **kw)

    def array(self, obj, dtype=None, *args, **kw):
        if dtype is not None and has_sym(obj):
            r = self._to_obj_domain(obj, dtype)
            if r is not None:
                if kw.get('ndmin'):
                    while r.ndim < kw['ndmin']:
                        r = r[None]
                return r
        return real_np.array(obj, dtype, *args, **kw)

    def full(self, shape, fill_value, dtype=None, **kw):
        dt = dtype
        if dt is None and not is_symbolic(fill_value):
            dt = real_np.asarray(fill_value).dtype
        if is_symbolic(fill_value) or self._want_obj(dt):
            out = obj_full(shape, fill_value)
            try:
                if dt is not None and np.dtype(dt).kind in 'iu':
                    out = out.view(IntSymArray)
            except TypeError:
                pass
            return out
        return real_np.full(shape, fill_value, dtype=dtype, **kw)

    def _like(self, real_fn, a, fill, dtype, kw, extra=()):
        proto_int = isinstance(a, IntSymArray) and dtype is None
        a = np.asarray(a)
        dt = a.dtype if dtype is None else dtype
        shape = kw.get('shape', None)
        shape = a.shape if shape is None else shape
        if a.dtype == object or is_symbolic(fill) or self._want_obj(dt):
            try:
                kind = np.dtype(dt).kind
            except TypeError:
                kind = 'O'
            if kind == 'b':
                return real_np.full(shape, bool(fill), dtype=bool)
            out = obj_full(shape, fill)
            if proto_int or (kind in 'iu' and (dtype is not None or a.dtype != object)):
                out = out.view(IntSymArray)
                if isinstance(fill, (float, np.floating)):
                    out[...] = fill          # truncates
            return out
        return real_fn(a, *extra, dtype=dtype, **kw)

    def full_like(self, a, fill_value, dtype=None, **kw):
        return self._like(real_np.full_like, a, fill_value, dtype, kw, extra=(fill_value,))

    def empty_like(self, a, dtype=None, **kw):
        return self._like(real_np.empty_like, a, 0, dtype, kw)

    def zeros_like(self, a, dtype=None, **kw):
        return self._like(real_np.zeros_like, a, 0, dtype, kw)

    def ones_like(self, a, dtype=None, **kw):
        return self._like(real_np.ones_like, a, 1, dtype, kw)

    # ---- predicates that numpy does not define on objects
    def isnan(self, x, **kw):
        if has_sym(x):
            if isinstance(x, np.ndarray):
                out = real_np.zeros(x.shape, dtype=bool)
                for idx in np.ndindex(x.shape):
                    v = x[idx]
                    out[idx] = isinstance(v, (float, np.floating)) and math.isnan(v)
                return out
            return False
        return real_np.isnan(x, **kw)

    def isfinite(self, x, **kw):
        if has_sym(x):
            if isinstance(x, np.ndarray):
                out = real_np.ones(x.shape, dtype=bool)
                for idx in np.ndindex(x.shape):
                    v = x[idx]
                    out[idx] = not (isinstance(v, (float, np.floating)) and not math.isfinite(v))
                return out
            return True
        return real_np.isfinite(x, **kw)

    def log10(self, x, *args, where=True, **kw):
        if isinstance(x, SymReal):
            if isinstance(where, SymBool) or not isinstance(where, bool):
                where = bool(where)
            if not where:
                return float('nan')
            return x.log10()
        return real_np.log10(x, *args, where=where, **kw)

    # ---- padding
    def pad(self, array, pad_width, mode='constant', **kwargs):
        array = np.asarray(array)
        if array.dtype != object:
            return real_np.pad(array, pad_width, mode, **kwargs)
        if array.ndim != 1:
            raise PathAbort("np.pad stub: only 1-D object arrays", kind='engine-gap')
        _used('np.pad (matrix of the real np.pad)')
        if isinstance(pad_width, SymReal):
            pad_width = int(pad_width)
        n = array.shape[0]
        key = ('pad', repr(pad_width), mode, repr(sorted(kwargs.items())))
        lm = linear_matrix(key, lambda v: real_np.pad(v, pad_width, mode, **kwargs), n)
        if lm is None:
            return _pad_nonlinear(array, pad_width, mode, kwargs)
        return apply_matrix(lm[0], lm[1], array)

    def gradient(self, f, *varargs, axis=None, **kw):
        f = np.asarray(f)
        if f.dtype != object:
            return real_np.gradient(f, *varargs, axis=axis, **kw)
        _used('np.gradient (matrix of the real np.gradient)')
        if varargs or kw:
            raise PathAbort("np.gradient stub: spacing arguments unsupported", kind='engine-gap')
        if f.ndim == 1:
            lm = linear_matrix(('gradient',), lambda v: real_np.gradient(v), f.shape[0])
            return apply_matrix(lm[0], lm[1], f)
        if f.ndim == 2 and axis == 0:
            lm = linear_matrix(('gradient',), lambda v: real_np.gradient(v), f.shape[0])
            out = np.empty(f.shape, dtype=object)
            for j in range(f.shape[1]):
                out[:, j] = apply_matrix(lm[0], lm[1], f[:, j])
            return out.view(SymArray)
        raise PathAbort("np.gradient stub: unsupported layout", kind='engine-gap')

    def arange(self, *args, **kw):
        if not has_sym(*args):
            return real_np.arange(*args, **kw)
        _used('np.arange (length fork)')
        if len(args) == 1:
            start, stop = 0, args[0]
        elif len(args) == 2:
            start, stop = args
        else:
            raise PathAbort("np.arange stub: step unsupported", kind='engine-gap')
        start, stop = lift(start), lift(stop)
        n = int((stop - start).ceil())
        n = max(n, 0)
        out = np.empty((n,), dtype=object)
        for k in range(n):
            out[k] = start + k
        return out.view(SymArray)

    def average(self, a, axis=None, weights=None, **kw):
        a_ = np.asarray(a)
        if a_.dtype == object and a_.size == 0 and weights is None:
            return _sa_mean(a_.view(SymArray), axis=axis)
        return real_np.average(a, axis=axis, weights=weights, **kw)

    def mean(self, a, axis=None, **kw):
        a_ = np.asarray(a) if not isinstance(a, np.ndarray) else a
        if a_.dtype == object and a_.size == 0:
            return _sa_mean(a_.view(SymArray), axis=axis)
        return real_np.mean(a, axis=axis, **kw)

    def digitize(self, x, bins, right=False):
        x_ = np.asarray(x)
        b_ = np.asarray(bins)
        if x_.dtype != object and b_.dtype != object:
            return real_np.digitize(x, bins, right=right)
        # numpy's object binary search is inconsistent when NaN floats are present; search element-wise
        _used('np.digitize on object arrays (element-wise search by comparison forks; NaN sorts last)')
        bl = list(b_.flat)
        for u, v in zip(bl[:-1], bl[1:]):
            if not bool(lift(u) <= lift(v)):
                raise PathAbort("np.digitize stub: bins must be increasing", kind='engine-gap')
        out = real_np.zeros(x_.shape, dtype=real_np.intp)
        for idx in np.ndindex(x_.shape):
            v = x_[idx]
            if isinstance(v, (float, np.floating)) and math.isnan(v):
                out[idx] = len(bl)
                continue
            i = 0
            lv = lift(v)
            while i < len(bl) and bool((lv > bl[i]) if right else (lv >= bl[i])):
                i += 1
            out[idx] = i
        return out

    def bincount(self, x, weights=None, minlength=0):
        w_ = None if weights is None else np.asarray(weights)
        x_ = np.asarray(x)
        if x_.dtype != object and (w_ is None or w_.dtype != object):
            return real_np.bincount(x, weights=weights, minlength=minlength)
        _used('np.bincount with object weights (sum of the weights per non-negative integer bin)')
        if x_.ndim != 1 or (w_ is not None and w_.shape != x_.shape):
            raise ValueError("The weights and list don't have the same length." if w_ is not None else "object too deep for desired array")
        idx = []
        for v in x_.flat:
            if isinstance(v, (SymReal, SymInt)):
                v = int(v)                      # concretised by forking on the path context
            if isinstance(v, (float, np.floating)):
                raise TypeError("Cannot cast array data from dtype('float64') to dtype('int64') according to the rule 'safe'")
            if int(v) < 0:
                raise ValueError("'list' argument must have no negative elements")
            idx.append(int(v))
        n = max([minlength] + [i + 1 for i in idx])
        if w_ is None:
            out = real_np.zeros(n, dtype=real_np.intp)
            for i in idx:
                out[i] += 1
            return out
        out = obj_full((n,), 0)
        for i, wv in zip(idx, w_.flat):
            out[i] = out[i] + wv
        return out

    def interp(self, x, xp, fp, left=None, right=None, period=None):
        if not has_sym(x, xp, fp) or period is not None:
            return real_np.interp(x, xp, fp, left=left, right=right, period=period)
        _used('np.interp on object arrays (piecewise linear, constant beyond the ends, by comparison forks)')
        xs = np.asarray(x, dtype=object)
        xpl = [lift(v) for v in np.asarray(xp, dtype=object).flat]
        fpl = [lift(v) for v in np.asarray(fp, dtype=object).flat]
        if len(xpl) != len(fpl):
            raise ValueError("fp and xp are not of the same length.")
        if len(xpl) == 0:
            raise ValueError("array of sample points is empty")

        def one(v):
            lv = lift(v)
            if bool(lv < xpl[0]):
                return fpl[0] if left is None else left
            if bool(lv > xpl[-1]):
                return fpl[-1] if right is None else right
            for k in range(len(xpl) - 1):
                if bool(lv <= xpl[k + 1]):
                    if bool(xpl[k + 1] == xpl[k]):
                        return fpl[k]
                    return fpl[k] + (fpl[k + 1] - fpl[k]) * ((lv - xpl[k]) / (xpl[k + 1] - xpl[k]))
            return fpl[-1]
        if xs.ndim == 0:
            return one(xs[()])
        out = np.empty(xs.shape, dtype=object)
        for idx in np.ndindex(xs.shape):
            out[idx] = one(xs[idx])
        return out.view(SymArray)

    def isclose(self, a, b, rtol=1e-05, atol=1e-08, equal_nan=False):
        if not has_sym(a, b):
            return real_np.isclose(a, b, rtol=rtol, atol=atol, equal_nan=equal_nan)
        _used('np.isclose / np.allclose on object arrays (|a-b| <= atol + rtol*|b|, by comparison forks)')
        a1, b1 = np.broadcast_arrays(np.asarray(a, dtype=object), np.asarray(b, dtype=object))
        out = real_np.zeros(a1.shape, dtype=bool)
        for idx in np.ndindex(a1.shape):
            x, y = a1[idx], b1[idx]
            xs = isinstance(x, (float, np.floating)) and not math.isfinite(x)
            ys = isinstance(y, (float, np.floating)) and not math.isfinite(y)
            if xs or ys:
                out[idx] = bool(real_np.isclose(float(x) if xs else 0.0, float(y) if ys else 0.0, rtol, atol, equal_nan)) if (xs and ys) else False
                continue
            lx, ly = lift(x), lift(y)
            out[idx] = bool(abs(lx - ly) <= lift(atol) + lift(rtol) * abs(ly))
        return out if out.ndim else bool(out[()])

    def allclose(self, a, b, rtol=1e-05, atol=1e-08, equal_nan=False):
        if not has_sym(a, b):
            return real_np.allclose(a, b, rtol=rtol, atol=atol, equal_nan=equal_nan)
        return bool(real_np.all(self.isclose(a, b, rtol=rtol, atol=atol, equal_nan=equal_nan)))

    def fmod(self, x1, x2, *args, **kw):
        if not has_sym(x1, x2) or args or kw:
            return real_np.fmod(x1, x2, *args, **kw)
        _used('np.fmod on object arrays (C semantics: the result has the sign of the dividend)')

        def one(a, b):
            la, lb = lift(a), lift(b)
            q = la / lb
            return la - (q.trunc() if isinstance(q, SymReal) else int(q)) * lb
        a1, a2 = np.asarray(x1, dtype=object), np.asarray(x2, dtype=object)
        if a1.ndim == 0 and a2.ndim == 0:
            return one(a1[()], a2[()])
        b1, b2 = np.broadcast_arrays(a1, a2)
        out = np.empty(b1.shape, dtype=object)
        for idx in np.ndindex(b1.shape):
            out[idx] = one(b1[idx], b2[idx])
        return out.view(SymArray)

    def median(self, a, *args, **kw):
        a_ = np.asarray(a)
        if a_.dtype != object:
            return real_np.median(a, *args, **kw)
        if args or kw:
            raise PathAbort("np.median stub: axis unsupported", kind='engine-gap')
        v = sorted_by_fork(list(a_.flat))
        n = len(v)
        if n % 2:
            return v[n // 2]
        return (v[n // 2 - 1] + v[n // 2]) / 2

    def round(self, a, decimals=0, **kw):
        if has_sym(a):
            if isinstance(a, np.ndarray):
                out = np.empty(a.shape, dtype=object)
                for idx in np.ndindex(a.shape):
                    out[idx] = round(a[idx], decimals) if isinstance(a[idx], SymReal) else a[idx]
                return out.view(SymArray)
            return round(a, decimals)
        return real_np.round(a, decimals, **kw)


def sorted_by_fork(vals):
    """insertion sort by forking comparisons"""
    out = []
    for v in vals:
        k = len(out)
        while k > 0 and bool(v < out[k - 1]):
            k -= 1
        out.insert(k, v)
    return out


def _sym_max(vals):
    m = vals[0]
    for v in vals[1:]:
        if bool(v > m):
            m = v
    return m


def _pad_nonlinear(array, pad_width, mode, kwargs):
    _used('np.pad (non-linear statistic modes by comparison forks)')
    if isinstance(pad_width, (int, np.integer)):
        pw = (int(pad_width), int(pad_width))
    else:
        pw = tuple(int(p) for p in np.ravel(pad_width))
        if len(pw) == 1:
            pw = (pw[0], pw[0])
    if mode not in ('maximum', 'minimum', 'median', 'mean') or set(kwargs) - {'stat_length'}:
        raise PathAbort("np.pad stub: mode %r with %r not modelled" % (mode, kwargs), kind='engine-gap')
    sl = kwargs.get('stat_length', None)
    n = array.shape[0]
    if sl is None:
        sl = (n, n)
    elif isinstance(sl, (int, np.integer)):
        sl = (int(sl), int(sl))
    else:
        sl = tuple(int(s) for s in np.ravel(sl))
        if len(sl) == 1:
            sl = (sl[0], sl[0])
    left = list(array[:min(sl[0], n)])
    right = list(array[n - min(sl[1], n):])

    def stat(vs):
        if mode == 'maximum':
            return _sym_max(vs)
        if mode == 'minimum':
            return -_sym_max([-v for v in vs])
        if mode == 'mean':
            acc = vs[0]
            for v in vs[1:]:
                acc = acc + v
            return acc / len(vs)
        s = sorted_by_fork(vs)
        k = len(s)
        return s[k // 2] if k % 2 else (s[k // 2 - 1] + s[k // 2]) / 2
    lv, rv_ = stat(left), stat(right)
    out = np.empty((n + pw[0] + pw[1],), dtype=object)
    out[:pw[0]] = lv
    out[pw[0]:pw[0] + n] = array
    out[pw[0] + n:] = rv_
    return out.view(SymArray)


NP = NPProxy()


# ======================================================================================================
#  scipy.interpolate
# ======================================================================================================

_SPL_CACHE = {}


def _solve_frac(A, B):
    """Solve A X = B over Fractions (Gauss-Jordan).  A: n x n, B: n x m (lists of lists)."""
    n = len(A)
    M = [list(A[i]) + list(B[i]) for i in range(n)]
    for col in range(n):
        piv = None
        for r in range(col, n):
            if M[r][col] != 0:
                piv = r
                break
        if piv is None:
            raise ValueError("singular spline system")
        M[col], M[piv] = M[piv], M[col]
        pv = M[col][col]
        M[col] = [v / pv for v in M[col]]
        for r in range(n):
            if r != col and M[r][col] != 0:
                f = M[r][col]
                M[r] = [a - f * b for a, b in zip(M[r], M[col])]
    return [row[n:] for row in M]


def notaknot_weights(x, ts):
    """W[i][j]: value at ts[i] of the not-a-knot interpolating cubic spline through (x[j], e_j).  Exact."""
    key = (tuple(x), tuple(ts))
    if key in _SPL_CACHE:
        return _SPL_CACHE[key]
    n = len(x)
    x = [Fraction(v) for v in x]
    h = [x[i + 1] - x[i] for i in range(n - 1)]
    # unknowns M_0..M_{n-1} (second derivatives); rhs is linear in y -> solve for the n unit vectors at once
    A = [[Fraction(0)] * n for _ in range(n)]
    R = [[Fraction(0)] * n for _ in range(n)]
    A[0][0], A[0][1], A[0][2] = h[1], -(h[0] + h[1]), h[0]
    A[n - 1][n - 3], A[n - 1][n - 2], A[n - 1][n - 1] = h[n - 2], -(h[n - 3] + h[n - 2]), h[n - 3]
    for i in range(1, n - 1):
        A[i][i - 1] = h[i - 1]
        A[i][i] = 2 * (h[i - 1] + h[i])
        A[i][i + 1] = h[i]
        R[i][i + 1] += 6 / h[i]
        R[i][i] += -6 / h[i] - 6 / h[i - 1]
        R[i][i - 1] += 6 / h[i - 1]
    Mm = _solve_frac(A, R)     # Mm[k][j] = d M_k / d y_j
    W = []
    for t in ts:
        t = Fraction(t)
        i = 0
        while i < n - 2 and t > x[i + 1]:
            i += 1
        hi = h[i]
        a = (x[i + 1] - t)
        b = (t - x[i])
        row = []
        for j in range(n):
            yi = Fraction(1 if j == i else 0)
            yi1 = Fraction(1 if j == i + 1 else 0)
            Mi, Mi1 = Mm[i][j], Mm[i + 1][j]
            v = (Mi * a ** 3 / (6 * hi) + Mi1 * b ** 3 / (6 * hi)
                 + (yi / hi - Mi * hi / 6) * a + (yi1 / hi - Mi1 * hi / 6) * b)
            row.append(v)
        W.append(row)
    _SPL_CACHE[key] = W
    return W


def _const_list(a):
    """list of Fractions when every element is concrete, else None"""
    out = []
    for v in np.asarray(a, dtype=object).flat:
        lv = lift(v)
        if lv is NotImplemented or core._is_special(lv) or lv.c is None:
            return None
        out.append(lv.c)
    return out


def _uf_eval(name, knots, vals, t):
    n = len(knots)
    f = core.uf("%s_%d" % (name, n), 2 * n + 1)
    args = [lift(k).rt for k in knots] + [lift(v).rt for v in vals] + [lift(t).rt]
    return SymReal(f(*args))


SPLINE_DEV = [0.0]


class _SplRep(object):
    def __init__(self, x, y):
        self.x = x
        self.y = y


class InterpProxy(object):
    def __getattr__(self, name):
        return getattr(real_interp, name)

    def splrep(self, x, y, *args, **kw):
        if not has_sym(x, y):
            return real_interp.splrep(x, y, *args, **kw)
        if args or kw:
            raise PathAbort("splrep stub: only k=3, s=0 defaults are modelled", kind='engine-gap')
        n = len(x)
        if n < 4:
            # reproduce the library's own exception
            real_interp.splrep(np.arange(n, dtype=float), np.zeros(n))
        xc = _const_list(x)
        if xc is not None:
            for a, b in zip(xc[:-1], xc[1:]):
                if not a < b:
                    real_interp.splrep(np.array([float(v) for v in xc]), np.zeros(n))
                    raise ValueError("Error on input data")
        return _SplRep(x, y)

    def splev(self, t, f, *args, **kw):
        if not isinstance(f, _SplRep):
            return real_interp.splev(t, f, *args, **kw)
        xc = _const_list(f.x)
        tc = _const_list(t)
        y = np.asarray(f.y, dtype=object)
        if xc is not None and tc is not None:
            _used('splrep/splev (exact rational not-a-knot cubic spline)')
            W = notaknot_weights(xc, tc)
            _validate_spline(xc, tc, W)
            out = np.empty((len(tc),), dtype=object)
            for i, row in enumerate(W):
                acc = SymReal(c=Fraction(0))
                for j, w in enumerate(row):
                    if w != 0:
                        acc = acc + y[j] * w
                out[i] = acc
            return out.view(SymArray)
        _used('splrep/splev with symbolic knots (uninterpreted interpolant, congruence only)')
        tt = np.asarray(t, dtype=object)
        out = np.empty(tt.shape, dtype=object)
        for i, tv in enumerate(tt.flat):
            out[i] = _uf_eval('spl', list(f.x), list(y), tv)
        return out.view(SymArray)

    def _pchip(self, kind, x, y):
        if not has_sym(x, y):
            return getattr(real_interp, kind)(x, y)
        if len(x) < 2:
            getattr(real_interp, kind)(np.arange(len(x), dtype=float), np.zeros(len(x)))
        xs, ys = list(np.asarray(x, dtype=object)), list(np.asarray(y, dtype=object))
        xc = _const_list(xs)
        if xc is not None and core.ctx().options.get('pchip') != 'uf':
            return _exact_pchip(xc, ys)
        _used('pchip / PchipInterpolator (uninterpreted interpolant: congruence + interpolation at knots + no-overshoot bounds)')

        def ev(t):
            tt = np.asarray(t, dtype=object)
            out = np.empty(tt.shape, dtype=object)
            for i, tv in enumerate(tt.flat):
                hit = None
                ltv = lift(tv)
                if xc is not None and ltv.c is not None and ltv.c in xc:
                    hit = ys[xc.index(ltv.c)]
                if hit is None:
                    hit = _uf_eval('pchip', xs, ys, tv)
                    if xc is not None and ltv.c is not None and xc[0] <= ltv.c <= xc[-1]:
                        # shape preservation (no overshoot): on [x_k, x_k+1] the interpolant stays between y_k and y_k+1
                        k = 0
                        while k < len(xc) - 2 and ltv.c > xc[k + 1]:
                            k += 1
                        a, b = lift(ys[k]).rt, lift(ys[k + 1]).rt
                        lo = z3.If(a <= b, a, b)
                        hi = z3.If(a <= b, b, a)
                        core.ctx().add(z3.And(hit.t >= lo, hit.t <= hi))
                out.flat[i] = hit
            return out.view(SymArray)
        return ev

    def PchipInterpolator(self, x, y, *a, **k):
        return self._pchip('PchipInterpolator', x, y)

    def pchip(self, x, y, *a, **k):
        return self._pchip('pchip', x, y)

    def interp1d(self, x, y, kind='linear', bounds_error=None, fill_value=float('nan'), **kw):
        if not has_sym(x, y):
            return real_interp.interp1d(x, y, kind=kind, bounds_error=bounds_error, fill_value=fill_value, **kw)
        if kind not in ('linear', 'slinear'):
            raise PathAbort("interp1d stub: only linear interpolation is modelled", kind='engine-gap')
        _used('interp1d(linear) (piecewise-linear model incl. extrapolate / fill values, sorted by forking)')
        xs, ys = list(np.asarray(x, dtype=object)), list(np.asarray(y, dtype=object))
        presorted = bool(kw.pop('assume_sorted', False))
        if kw.get('axis', -1) not in (-1, 0) or kw.get('copy', True) is not True:
            raise PathAbort("interp1d stub: axis/copy arguments unsupported", kind='engine-gap')
        if presorted:
            # scipy takes the abscissae as given: bracket by binary search (side='left') and clip - meaningless if they are not ascending
            _used('interp1d(assume_sorted=True): abscissae used as given (binary-search bracketing)')
        else:
            order = sorted_by_fork_idx(xs)
            xs = [xs[i] for i in order]
            ys = [ys[i] for i in order]
        if len(xs) < 2:
            # scipy accepts a single point for the linear kind and evaluates 0/0 -> nan everywhere
            real_interp.interp1d(np.zeros(len(xs)), np.zeros(len(xs)), kind=kind, bounds_error=bounds_error, fill_value=fill_value)
            return lambda t: obj_full(np.asarray(t).shape, float('nan'))
        extrap = isinstance(fill_value, str) and fill_value == 'extrapolate'
        if not extrap:
            if bounds_error is None or bounds_error:
                below = above = None          # out-of-range raises
            elif isinstance(fill_value, tuple) and len(fill_value) == 2:
                below, above = fill_value
            else:
                below = above = fill_value

        def ev(t):
            tt = np.asarray(t, dtype=object)
            out = np.empty(tt.shape, dtype=object)
            for i, tv in enumerate(tt.flat):
                ltv = lift(tv)
                if not extrap:
                    if bool(ltv < xs[0]):
                        if below is None:
                            raise ValueError("A value in x_new is below the interpolation range.")
                        out.flat[i] = below
                        continue
                    if bool(ltv > xs[-1]):
                        if above is None:
                            raise ValueError("A value in x_new is above the interpolation range.")
                        out.flat[i] = above
                        continue
                if presorted:
                    lo_, hi_ = 0, len(xs)
                    while lo_ < hi_:
                        mid = lo_ + ((hi_ - lo_) >> 1)
                        if bool(lift(xs[mid]) < ltv):
                            lo_ = mid + 1
                        else:
                            hi_ = mid
                    k = min(max(lo_, 1), len(xs) - 1) - 1
                else:
                    k = 0
                    while k < len(xs) - 2 and bool(ltv >= xs[k + 1]):
                        k += 1
                slope = (ys[k + 1] - ys[k]) / (xs[k + 1] - xs[k])
                out.flat[i] = ys[k] + slope * (ltv - xs[k])
            return out.view(SymArray)
        return ev


def _sgn(v):
    """sign of a lifted value by forking: -1, 0, 1"""
    if bool(v > 0):
        return 1
    if bool(v < 0):
        return -1
    return 0


def _exact_pchip(xc, ys):
    """scipy's PchipInterpolator for concrete strictly increasing knots and symbolic values, written out exactly:
    Fritsch-Butland derivatives (weighted harmonic mean, zero at local extrema, three-point end formula) and cubic
    Hermite evaluation.  Sign tests fork; validated against scipy on every concolic replay."""
    _used('pchip / PchipInterpolator (exact Fritsch-Butland derivatives + cubic Hermite, sign tests by forking)')
    n = len(xc)
    for a, b in zip(xc[:-1], xc[1:]):
        if not a < b:
            raise ValueError("`x` must be strictly increasing sequence.")
    ys = [lift(v) for v in ys]
    h = [xc[k + 1] - xc[k] for k in range(n - 1)]
    m = [(ys[k + 1] - ys[k]) / h[k] for k in range(n - 1)]
    d = [None] * n
    if n == 2:
        d = [m[0], m[0]]
    else:
        sg = [_sgn(v) for v in m]

        def edge(h0, h1, m0, m1, s0, s1):
            dd = (m0 * (2 * h0 + h1) - m1 * h0) / (h0 + h1)
            sd = _sgn(dd)
            if sd != s0:
                return SymReal(c=Fraction(0))
            if s0 != s1 and bool(abs(dd) > abs(m0) * 3):
                return m0 * 3
            return dd
        for k in range(1, n - 1):
            if sg[k - 1] != sg[k] or sg[k] == 0 or sg[k - 1] == 0:
                d[k] = SymReal(c=Fraction(0))
            else:
                w1 = 2 * h[k] + h[k - 1]
                w2 = h[k] + 2 * h[k - 1]
                d[k] = (m[k - 1] * m[k] * (w1 + w2)) / (m[k] * w1 + m[k - 1] * w2)
        d[0] = edge(h[0], h[1], m[0], m[1], sg[0], sg[1])
        d[n - 1] = edge(h[-1], h[-2], m[-1], m[-2], sg[-1], sg[-2])

    def ev(t):
        tc = _const_list(t)
        if tc is None:
            raise PathAbort("exact pchip: symbolic abscissa", kind='engine-gap')
        out = np.empty((len(tc),), dtype=object)
        for i, tv in enumerate(tc):
            k = 0
            if tv >= xc[-1]:
                k = n - 2
            else:
                while k < n - 2 and tv >= xc[k + 1]:
                    k += 1
            s_ = (tv - xc[k]) / h[k]
            h00 = 2 * s_ ** 3 - 3 * s_ ** 2 + 1
            h10 = s_ ** 3 - 2 * s_ ** 2 + s_
            h01 = -2 * s_ ** 3 + 3 * s_ ** 2
            h11 = s_ ** 3 - s_ ** 2
            out[i] = ys[k] * h00 + d[k] * (h10 * h[k]) + ys[k + 1] * h01 + d[k + 1] * (h11 * h[k])
        return out.view(SymArray)
    return ev


def sorted_by_fork_idx(vals):
    idx = []
    for i, v in enumerate(vals):
        k = len(idx)
        while k > 0 and bool(v < vals[idx[k - 1]]):
            k -= 1
        idx.insert(k, i)
    return idx


_VALIDATED = set()


def _validate_spline(xc, tc, W):
    key = (tuple(xc), tuple(tc))
    if key in _VALIDATED:
        return
    _VALIDATED.add(key)
    x = np.array([float(v) for v in xc])
    t = np.array([float(v) for v in tc])
    for j in range(len(xc)):
        e = np.zeros(len(xc))
        e[j] = 1.0
        ref = real_interp.splev(t, real_interp.splrep(x, e))
        mine = np.array([float(W[i][j]) for i in range(len(tc))])
        dev = float(np.max(np.abs(ref - mine))) if len(tc) else 0.0
        SPLINE_DEV[0] = max(SPLINE_DEV[0], dev)
        if dev > 1e-8:
            raise PathAbort("exact spline deviates from FITPACK by %g" % dev, kind='engine-error')


INTERP = InterpProxy()


# ======================================================================================================
#  scipy.sparse
# ======================================================================================================

class DenseCOO(object):
    def __init__(self, data, rows, cols, shape):
        _used('sparse.coo_matrix (dense accumulation; duplicate coordinates add)')
        self.shape = tuple(int(s) for s in shape)
        # the COO triplets stay available like on the scipy object
        self.data = np.asarray(list(data), dtype=object)
        self.row = real_np.asarray([int(r) for r in rows], dtype=real_np.intp)
        self.col = real_np.asarray([int(c) for c in cols], dtype=real_np.intp)
        self.dtype = real_np.dtype(object)
        self.nnz = len(self.row)
        self.dense = np.empty(self.shape, dtype=object)
        self.dense.fill(0)
        for d, r, c in zip(self.data, self.row, self.col):
            if r < 0 or c < 0 or r >= self.shape[0] or c >= self.shape[1]:
                raise ValueError("row/column index exceeds matrix dimensions")
            self.dense[r, c] = self.dense[r, c] + d

    def toarray(self):
        return self.dense.copy().view(SymArray)

    todense = toarray

    def sum(self, axis=None):
        if axis is None:
            return self.dense.sum()
        return self.dense.sum(axis=axis, keepdims=True).view(SymArray)

    def mean(self, axis=None):
        if axis is None:
            return self.dense.sum() / self.dense.size
        return (self.dense.sum(axis=axis, keepdims=True) / self.shape[axis]).view(SymArray)


class SparseProxy(object):
    def __getattr__(self, name):
        return getattr(real_sparse, name)

    def coo_matrix(self, arg, shape=None, **kw):
        if isinstance(arg, tuple) and len(arg) == 2 and has_sym(arg[0]):
            data, (rows, cols) = arg
            if shape is None:
                shape = (int(max(rows)) + 1, int(max(cols)) + 1)
            return DenseCOO(list(data), list(rows), list(cols), shape)
        return real_sparse.coo_matrix(arg, shape=shape, **kw)


SPARSE = SparseProxy()


# ======================================================================================================
#  scipy.signal
# ======================================================================================================

class _PeakFindingProxy(object):
    """scipy.signal._peak_finding with peak_prominences modelled for object arrays (wlen given)"""

    def __getattr__(self, name):
        return getattr(real_signal._peak_finding, name)

    def peak_prominences(self, x, peaks, wlen=None):
        if not has_sym(x):
            return real_signal._peak_finding.peak_prominences(x, peaks, wlen=wlen)
        _used('signal.peak_prominences (written out: peak minus the higher of the two window minima)')
        v = [lift(a) for a in np.asarray(x, dtype=object)]
        n = len(v)
        half = None if wlen is None else max(1, (int(math.ceil(wlen)) | 1) // 2)
        proms = np.empty((len(peaks),), dtype=object)
        lb = real_np.zeros(len(peaks), dtype=real_np.intp)
        rb = real_np.zeros(len(peaks), dtype=real_np.intp)
        for k, pk in enumerate(peaks):
            pk = int(pk)
            lo = 0 if half is None else max(0, pk - half)
            hi = n - 1 if half is None else min(n - 1, pk + half)
            # walk outwards until a higher sample is met; remember the lowest sample on the way
            i, lmin, li = pk, v[pk], pk
            while i >= lo and not bool(v[i] > v[pk]):
                if bool(v[i] < lmin):
                    lmin, li = v[i], i
                i -= 1
            i, rmin, ri = pk, v[pk], pk
            while i <= hi and not bool(v[i] > v[pk]):
                if bool(v[i] < rmin):
                    rmin, ri = v[i], i
                i += 1
            base = lmin if bool(lmin >= rmin) else rmin
            proms[k] = v[pk] - base
            lb[k], rb[k] = li, ri
        return proms.view(SymArray), lb, rb


class SignalProxy(object):
    def __getattr__(self, name):
        return getattr(real_signal, name)

    _peak_finding = _PeakFindingProxy()

    def find_peaks(self, x, *args, **kwargs):
        if not has_sym(x):
            return real_signal.find_peaks(x, *args, **kwargs)
        if args or any(v is not None for v in kwargs.values()):
            raise PathAbort("find_peaks stub: conditions (height, distance, ...) are not modelled", kind='engine-gap')
        _used('signal.find_peaks (scipy _local_maxima_1d written out: plateau mid-points, by comparison forks)')
        v = [lift(a) for a in np.asarray(x, dtype=object)]
        n = len(v)
        mids = []
        i = 1
        while i < n - 1:
            if bool(v[i - 1] < v[i]):
                ahead = i + 1
                while ahead < n - 1 and bool(v[ahead] == v[i]):
                    ahead += 1
                if bool(v[ahead] < v[i]):
                    mids.append((i + ahead - 1) // 2)
                    i = ahead
            i += 1
        return real_np.array(mids, dtype=real_np.intp), {}

    def medfilt(self, volume, kernel_size=None):
        if not has_sym(volume):
            return real_signal.medfilt(volume, kernel_size)
        _used('signal.medfilt (median by comparison forks, zero padded)')
        v = list(np.asarray(volume, dtype=object))
        k = int(kernel_size or 3)
        hk = k // 2
        padded = [0] * hk + v + [0] * hk
        out = np.empty((len(v),), dtype=object)
        for i in range(len(v)):
            w = sorted_by_fork([lift(a) for a in padded[i:i + k]])
            out[i] = w[hk]
        return out.view(SymArray)


SIGNAL = SignalProxy()


# ======================================================================================================
#  scipy.spatial.cKDTree
# ======================================================================================================

import scipy.spatial as real_spatial

REAL_CKDTREE = real_spatial.cKDTree


class KNNStub(object):
    """k nearest neighbours by Euclidean distance for symbolic data (1 feature: |x-y|; more: squared distances compared,
    exact sqrt for the returned distances).  Ties are broken by an explicit fork (either order is a possible answer of the
    tree); missing neighbours get index n and distance inf; k=1 output is squeezed like scipy's."""

    def __init__(self, data):
        self.data = np.asarray(data, dtype=object)
        if self.data.ndim == 1:
            self.data = self.data[:, None]
        self.n = self.data.shape[0]

    def query(self, x, k=1, distance_upper_bound=float('inf'), eps=0, p=2, workers=1, **kw):
        _used('spatial.cKDTree.query (k-NN contract model: sort by distance with tie forks, inf/n for missing)')
        if eps != 0 or p != 2 or kw:
            # an approximate / non-Euclidean search is a different contract: nothing decided under the exact one may be reported
            raise PathAbort("cKDTree.query called with eps=%r p=%r %r: only the exact Euclidean k-NN contract is modelled" % (eps, p, kw),
                            kind='engine-gap')
        x = np.asarray(x, dtype=object)
        if x.ndim == 1:
            x = x[:, None]
        nx, nf = x.shape
        D = np.empty((nx, k), dtype=object)
        I = real_np.zeros((nx, k), dtype=real_np.intp)
        for i in range(nx):
            ds = []
            for j in range(self.n):
                if nf == 1:
                    ds.append(abs(lift(x[i, 0]) - lift(self.data[j, 0])))
                else:
                    acc = None
                    for f in range(nf):
                        d_ = lift(x[i, f]) - lift(self.data[j, f])
                        acc = d_ * d_ if acc is None else acc + d_ * d_
                    ds.append(acc)
            order = []
            for j in range(self.n):
                pos = len(order)
                while pos > 0:
                    other = order[pos - 1]
                    if bool(ds[j] < ds[other]):
                        pos -= 1
                    elif bool(ds[j] == ds[other]) and core.ctx().choose(2, 'knn-tie') == 1:
                        pos -= 1
                    else:
                        break
                order.insert(pos, j)
            for c in range(k):
                if c < len(order):
                    j = order[c]
                    dist = ds[j] if nf == 1 else lift(ds[j]).sqrt()
                    if bool(dist <= distance_upper_bound) if not (isinstance(distance_upper_bound, float) and math.isinf(distance_upper_bound)) else True:
                        D[i, c] = dist
                        I[i, c] = j
                        continue
                D[i, c] = float('inf')
                I[i, c] = self.n
        if k == 1:
            return D[:, 0].view(SymArray), I[:, 0]
        return D.view(SymArray), I


def ckdtree_factory(data, *a, **kw):
    if has_sym(data):
        return KNNStub(data)
    return REAL_CKDTREE(data, *a, **kw)


# ======================================================================================================
#  multiprocessing
# ======================================================================================================

class _Proc(object):
    _identity = (1,)
    pid = 0
    name = 'InlineWorker-1'


class InlinePool(object):
    """Order-preserving starmap; jobs run inline.  Each job runs on a worker chosen by the path context
    (symbolic worker-assignment vector, canonical up to worker renaming); worker state = copy (fork) of the
    parent's RNG stream state taken when the pool was created."""

    log = []   # (pool id, job index, worker)
    npools = 0

    def __init__(self, processes=None, initializer=None, initargs=(), **kw):
        _used('multiprocessing.Pool (inline, order-preserving starmap, forked RNG state per worker)')
        self.processes = int(processes or 1)
        InlinePool.npools += 1
        self.id = InlinePool.npools
        self.worker_states = [RNG.fork_state() for _ in range(self.processes)]
        self.used_workers = 0
        if initializer is not None:
            # every worker runs the initializer once, in its own (forked) state
            _used('multiprocessing.Pool(initializer=...) run once per worker in the worker state')
            for w in range(self.processes):
                parent_state = RNG.state
                RNG.state = self.worker_states[w]
                try:
                    initializer(*initargs)
                    self.worker_states[w] = RNG.state
                finally:
                    RNG.state = parent_state

    def starmap(self, func, iterable, chunksize=None):
        out = []
        for j, args in enumerate(iterable):
            nopt = min(self.processes, self.used_workers + 1)
            w = core.ctx().choose(nopt, 'worker') if nopt > 1 else 0
            if w == self.used_workers:
                self.used_workers += 1
            InlinePool.log.append((self.id, j, w))
            parent_state = RNG.state
            RNG.state = self.worker_states[w]
            try:
                out.append(func(*args))
            finally:
                RNG.state = parent_state
        return out

    def map(self, func, iterable, chunksize=None):
        return self.starmap(func, [(a,) for a in iterable])

    def close(self):
        pass

    def join(self):
        pass

    def terminate(self):
        pass

    def __enter__(self):
        return self

    def __exit__(self, *a):
        return False


class MPProxy(object):
    def __getattr__(self, name):
        import multiprocessing
        return getattr(multiprocessing, name)

    Pool = InlinePool

    @staticmethod
    def current_process():
        return _Proc()


MP = MPProxy()


# ======================================================================================================
#  installation
# ======================================================================================================

_TARGETS = [
    ('emd.sift', {'np': NP, 'interp': INTERP, 'mp': MP, 'signal': SIGNAL}),
    ('emd.spectra', {'np': NP, 'sparse': SPARSE, 'signal': SIGNAL}),
    ('emd.cycles', {'np': NP, 'interp': INTERP}),
    ('emd._cycles_support', {'np': NP}),
    ('emd.utils', {'np': NP, 'signal': SIGNAL}),
    ('emd.support', {'np': NP}),
    ('emd.logger', {}),
]
ACTIVE = [False]
_SKIP_MODULES = ('emd.logger', 'emd.plotting', 'emd.example', 'emd.tests')


def _value_map():
    """real object -> stand-in, so that the rebinding does not depend on the *names* the library uses for its imports:
    `import numpy as np`, `import numpy`, `from scipy.interpolate import splrep, splev`, `from scipy.spatial import cKDTree`
    and `from multiprocessing import Pool` are all covered."""
    import multiprocessing as real_mp
    m = {}
    for real, proxy in ((real_np, NP), (real_interp, INTERP), (real_signal, SIGNAL), (real_sparse, SPARSE), (real_mp, MP)):
        m[id(real)] = (real, proxy)
        names = set(vars(type(proxy))) | set(vars(proxy))
        for n in names:
            if n.startswith('_') or not hasattr(real, n):
                continue
            ro = getattr(real, n)
            try:
                m[id(ro)] = (ro, getattr(proxy, n))
            except Exception:
                pass
    m[id(REAL_CKDTREE)] = (REAL_CKDTREE, ckdtree_factory)
    m[id(real_spatial)] = (real_spatial, real_spatial)      # attribute swapped below
    return m


@contextlib.contextmanager
def installed():
    import importlib
    import sys
    saved = []
    try:
        for modname, _ in _TARGETS:
            importlib.import_module(modname)
        vm = _value_map()
        for modname in sorted(sys.modules):
            if not (modname == 'emd' or modname.startswith('emd.')) or modname.startswith(_SKIP_MODULES):
                continue
            mod = sys.modules[modname]
            if mod is None:
                continue
            for k, v in list(vars(mod).items()):
                hit = vm.get(id(v))
                if hit is not None and hit[0] is v and hit[1] is not v:
                    saved.append((mod, k, v))
                    setattr(mod, k, hit[1])
        RNG.reset()
        InlinePool.log = []
        InlinePool.npools = 0
        real_spatial.cKDTree = ckdtree_factory
        ACTIVE[0] = True
        yield
    finally:
        ACTIVE[0] = False
        real_spatial.cKDTree = REAL_CKDTREE
        for mod, k, v in reversed(saved):
            setattr(mod, k, v)
