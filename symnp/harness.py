"""The harness interface `h` handed to every check, in its symbolic and its concrete (replay) form.

A check is written once, polymorphically: with HSym it runs the real emd code on solver terms and turns every
`check` into a query `PC and not cond`; with HConc the same function runs the unmodified real code (real numpy /
scipy / multiprocessing, stubs removed) on the float values of a solver model and evaluates the same observables.
"""
import math
from fractions import Fraction

import numpy as np
import z3

from . import core
from .core import SymReal, SymInt, SymBool, lift, PathAbort


_FINAL_COUNT = [0]


class Candidate(object):
    def __init__(self, label, detail, values, choices):
        self.label = label
        self.detail = detail
        self.values = values      # list of (name, Fraction/bool)
        self.choices = choices    # list of (name, index)


def _tol_eq(a, b, rtol=1e-7, atol=1e-9):
    if a is None or b is None:
        return a is b
    try:
        fa, fb = float(a), float(b)
    except (TypeError, ValueError):
        return a == b
    if math.isnan(fa) or math.isnan(fb):
        return math.isnan(fa) and math.isnan(fb)
    if math.isinf(fa) or math.isinf(fb):
        return fa == fb
    return abs(fa - fb) <= atol + rtol * max(abs(fa), abs(fb))


class HBase(object):
    symbolic = False

    def __init__(self, params):
        self.params = dict(params)
        self.notes = {}
        self.observed = []
        self.checks = []       # (label, verdict)
        self.choice_seq = []   # (name, index)

    def set_option(self, key, value):
        """engine options (symbolic runs only), e.g. ('sqrt', 'abstract')"""
        if self.symbolic:
            self.ctx.options[key] = value
            from . import stubs
            stubs._used('engine option %s=%s' % (key, value))

    def note(self, cls, n=1):
        self.notes[cls] = self.notes.get(cls, 0) + n

    def observe(self, name, val):
        self.observed.append((name, val))

    def reals(self, name, n, **kw):
        out = np.empty((n,), dtype=object)
        for i in range(n):
            out[i] = self.real("%s[%d]" % (name, i), **kw)
        return self._arr(out)

    def ints(self, name, n, lo, hi):
        out = np.empty((n,), dtype=object)
        for i in range(n):
            out[i] = self.int("%s[%d]" % (name, i), lo, hi)
        return self._arr(out, int)

    def int_array(self, name, n, lo, hi, bits=None):
        """an integer-dtype input array (int64 in replays; an object array with integer-array semantics - results of
        int (op) int stay integer, assignments truncate - in symbolic runs)"""
        vals = [self.int("%s[%d]" % (name, i), lo, hi) for i in range(n)]
        if self.symbolic:
            from .stubs import int_array
            return int_array(vals, bits=bits)
        return np.array([int(v) for v in vals], dtype={None: np.int64, 8: np.int8, 16: np.int16, 32: np.int32}[bits])

    def bools(self, name, n):
        out = np.empty((n,), dtype=object)
        for i in range(n):
            out[i] = self.bool("%s[%d]" % (name, i))
        return self._arr(out, bool)


class HSym(HBase):
    symbolic = True

    def __init__(self, ctx, params):
        HBase.__init__(self, params)
        self.ctx = ctx
        self.candidates = []

    def _arr(self, out, kind=float):
        from .stubs import SymArray
        return out.view(SymArray)

    # ------------------------------------------------------------ inputs
    def real(self, name, lo=None, hi=None, lo_open=False, hi_open=False):
        v = z3.Real(name)
        s = SymReal(v)
        self.ctx.inputs.append((name, s))
        cs = []
        if lo is not None:
            lo_t = lift(lo).rt
            cs.append(v > lo_t if lo_open else v >= lo_t)
        if hi is not None:
            hi_t = lift(hi).rt
            cs.append(v < hi_t if hi_open else v <= hi_t)
        for c in cs:
            self.ctx.add(c)
        return s

    def int(self, name, lo, hi):
        v = z3.Int(name)
        s = SymInt(v)
        self.ctx.inputs.append((name, s))
        self.ctx.add(z3.And(v >= int(lo), v <= int(hi)))
        return s

    def bool(self, name):
        v = z3.Bool(name)
        s = SymBool(v)
        self.ctx.inputs.append((name, s))
        return s

    def choice(self, name, options):
        options = list(options)
        k = self.ctx.choose(len(options), name)
        self.choice_seq.append((name, k))
        return options[k]

    def assume(self, cond):
        if isinstance(cond, (bool, np.bool_)):
            if not cond:
                raise core.Infeasible()
            return
        self.ctx.add(cond.t)
        self.ctx.model = None
        r = self.ctx.check()
        if r == z3.unsat:
            raise core.Infeasible()
        if r == z3.unknown:
            self.ctx.inconclusive.append('unknown-assume')
            raise PathAbort("assumption undecided", kind='unknown')
        self.ctx.model = self.ctx.solver.model()

    # ------------------------------------------------------------ assertions
    def _dyadic(self, solver):
        """try to move the current sat model onto a coarse dyadic grid (exactly representable, exact float sums)"""
        c = self.ctx
        extra = []
        for name, s in c.inputs:
            if isinstance(s, SymReal) and not s.is_int and s.c is None:
                k = z3.Int('dy!' + name)
                extra.append(s.t * 64 == z3.ToReal(k))
        if not extra:
            return None
        s2 = z3.Solver()
        s2.set('timeout', 1500)
        try:
            s2.add(solver.assertions())
            s2.add(*extra)
            # prefer generic values (pairwise distinct inputs): ties only where the path forces them
            terms = [s.t for name, s in c.inputs if isinstance(s, SymReal) and not s.is_int and s.c is None]
            if 2 <= len(terms) <= 24:
                s2.push()
                s2.add(z3.Distinct(*terms))
                if s2.check() == z3.sat:
                    return s2.model()
                s2.pop()
            if s2.check() == z3.sat:
                return s2.model()
        except z3.Z3Exception:
            pass
        return None

    def _second_opinion(self, solver):
        """every k-th discharged (unsat) final query is exported as SMT-LIB2 and re-decided by the cvc5 binary"""
        c = self.ctx
        k = c.options.get('second_solver_every')
        if not k:
            return
        _FINAL_COUNT[0] += 1
        if _FINAL_COUNT[0] % k:
            return
        import os
        import subprocess
        import tempfile
        text = "(set-logic ALL)\n" + solver.to_smt2()
        fd, fn = tempfile.mkstemp(suffix='.smt2', prefix='emd-verif-q-')
        try:
            with os.fdopen(fd, 'w') as f:
                f.write(text)
            try:
                out = subprocess.run(['cvc5', '--tlimit=8000', fn], capture_output=True, text=True, timeout=15).stdout
            except (subprocess.TimeoutExpired, OSError):
                out = 'timeout'
        finally:
            os.unlink(fn)
        first = (out.strip().splitlines() or ['?'])[0].strip()
        if '(error' in out:
            verdict = 'error'
        elif first == 'unsat':
            verdict = 'agree'
        elif first == 'sat':
            verdict = 'disagree'
        else:
            verdict = 'undecided'
        self.notes['second-solver:' + verdict] = self.notes.get('second-solver:' + verdict, 0) + 1
        if verdict == 'disagree':
            c.inconclusive.append('second-solver-disagrees')

    def nice_model(self):
        """a model of the path condition, dyadic when possible"""
        c = self.ctx
        m = c.get_model()
        m2 = self._dyadic(c.solver)
        return m2 if m2 is not None else m

    def _query(self, neg):
        """is PC and neg satisfiable?  returns ('unsat'|'sat'|'unknown', model)"""
        c = self.ctx
        c.solver.push()
        try:
            c.solver.add(neg)
            r = c.check()
            if r == z3.sat:
                m = c.solver.model()
                m2 = self._dyadic(c.solver)
                return 'sat', (m2 if m2 is not None else m)
            if r == z3.unsat:
                self._second_opinion(c.solver)
                return 'unsat', None
        finally:
            c.solver.pop()
        # fallback: fresh non-incremental solver (full tactic pipeline; helps with nonlinear arithmetic)
        s2 = z3.Solver()
        s2.set('timeout', c.timeout_ms)
        s2.add(c.solver.assertions())
        s2.add(neg)
        import time as _t
        t0 = _t.time()
        r = s2.check()
        c.solver_time += _t.time() - t0
        c.nchecks += 1
        if r == z3.sat:
            return 'sat', s2.model()
        if r == z3.unsat:
            return 'unsat', None
        c.nunknown += 1
        return 'unknown', None

    def _candidate(self, label, detail, model):
        vals = []
        for name, s in self.ctx.inputs:
            vals.append((name, self.ctx.value(s, model)))
        self.candidates.append(Candidate(label, None if detail is None else str(detail)[:400], vals, list(self.choice_seq)))

    def check(self, cond, label, detail=None):
        if isinstance(cond, SymBool):
            t = z3.simplify(cond.t)
            if z3.is_true(t):
                cond = True
            elif z3.is_false(t):
                cond = False
        if isinstance(cond, (bool, np.bool_)):
            if cond:
                self.checks.append((label, 'unsat'))
            else:
                self.checks.append((label, 'sat'))
                self._candidate(label, detail, self.nice_model())
            return
        r, m = self._query(z3.Not(t))
        self.checks.append((label, r))
        if r == 'sat':
            self._candidate(label, detail, m)

    def fail(self, label, detail=None):
        self.check(False, label, detail)

    def check_possible(self, cond, label, detail=None):
        """`cond` must be satisfiable together with the path condition (used for 'these two values are not forced to
        coincide'); a violation is reported when PC and cond is unsat, with a model of the path condition."""
        if isinstance(cond, SymBool):
            t = z3.simplify(cond.t)
            if z3.is_true(t):
                cond = True
            elif z3.is_false(t):
                cond = False
        if isinstance(cond, (bool, np.bool_)):
            self.check(bool(cond), label, detail)
            return
        r, m = self._query(t)
        if r == 'sat':
            self.checks.append((label, 'unsat'))      # obligation discharged
        elif r == 'unsat':
            self.checks.append((label, 'sat'))
            self._candidate(label, detail, self.nice_model())
        else:
            self.checks.append((label, 'unknown'))

    def check_close(self, a, b, atol, label, detail=None):
        """|a - b| <= atol elementwise (for comparisons against quantities the implementation computes in doubles)"""
        a = np.asarray(a, dtype=object)
        b = np.asarray(b, dtype=object)
        if a.shape != b.shape:
            self.check(False, label, "%s [shape %s vs %s]" % (detail, a.shape, b.shape))
            return
        conds = []
        for x, y in zip(a.flat, b.flat):
            lx, ly = lift(x), lift(y)
            if core._is_special(lx) or core._is_special(ly) or lx is NotImplemented or ly is NotImplemented:
                if not ((core._is_special(lx) and core._is_special(ly)) and (lx == ly or (lx != lx and ly != ly))):
                    self.check(False, label, "%s [non-finite]" % (detail,))
                    return
                continue
            d = lx - ly
            if d.c is not None:
                if abs(d.c) > atol:
                    self.check(False, label, detail)
                    return
                continue
            conds.append(z3.And(d.rt <= atol, d.rt >= -atol))
        if not conds:
            self.checks.append((label, 'unsat'))
            return
        self.check(SymBool(z3.And(*conds)), label, detail)

    def check_eq(self, a, b, label, detail=None):
        """a == b, elementwise for arrays (exact over the reals for symbolic entries)."""
        conds = []
        ok = self._eq_conds(a, b, conds)
        if not ok:
            self.check(False, label, "%s [%s]" % (detail, getattr(self, '_mismatch', 'shape/kind mismatch')))
            self._mismatch = 'shape/kind mismatch'
            return
        if not conds:
            self.checks.append((label, 'unsat'))
            return
        self.check(SymBool(z3.And(*conds)) if len(conds) > 1 else SymBool(conds[0]), label, detail)

    def _eq_conds(self, a, b, conds):
        if isinstance(a, (list, tuple)) and not isinstance(b, np.ndarray):
            if not isinstance(b, (list, tuple)) or len(a) != len(b):
                return False
            return all(self._eq_conds(x, y, conds) for x, y in zip(a, b))
        if isinstance(a, np.ndarray) or isinstance(b, np.ndarray):
            a = np.asarray(a, dtype=object) if not isinstance(a, np.ndarray) else a
            b = np.asarray(b, dtype=object) if not isinstance(b, np.ndarray) else b
            if a.shape != b.shape:
                return False
            for x, y in zip(a.flat, b.flat):
                if not self._eq_conds(x, y, conds):
                    return False
            return True
        if a is None or b is None:
            return a is b
        if isinstance(a, SymBool) or isinstance(b, SymBool):
            la = a.t if isinstance(a, SymBool) else z3.BoolVal(bool(a))
            lb = b.t if isinstance(b, SymBool) else z3.BoolVal(bool(b))
            conds.append(la == lb)
            return True
        la, lb = lift(a), lift(b)
        if la is NotImplemented or lb is NotImplemented:
            return a == b
        if core._is_special(la) or core._is_special(lb):
            if core._is_special(la) and core._is_special(lb):
                return (math.isnan(la) and math.isnan(lb)) or la == lb
            self._mismatch = "non-finite %r vs finite value" % (la if core._is_special(la) else lb)
            return False
        if la.c is not None and lb.c is not None:
            return _tol_eq(la.c, lb.c)
        conds.append(la.rt == lb.rt)
        return True


class HConc(HBase):
    """Concrete replay: inputs come from a solver model; checks are evaluated on real floats."""

    symbolic = False

    def __init__(self, params, values, choices):
        HBase.__init__(self, params)
        self.values = dict(values)
        self._choices = list(choices)
        self._cpos = 0
        self.failures = []
        self.missing = False

    def _arr(self, out, kind=float):
        try:
            return np.array([kind(x) for x in out], dtype=kind)
        except (TypeError, ValueError):
            return out

    def _get(self, name, default):
        if name in self.values:
            return self.values[name]
        self.missing = True
        return default

    def real(self, name, lo=None, hi=None, lo_open=False, hi_open=False):
        d = 0.0 if lo is None else float(lo)
        return float(self._get(name, d))

    def int(self, name, lo, hi):
        return int(self._get(name, lo))

    def bool(self, name):
        return bool(self._get(name, False))

    def choice(self, name, options):
        options = list(options)
        if len(options) == 1:
            k = 0
        elif self._cpos < len(self._choices):
            n, k = self._choices[self._cpos]
            self._cpos += 1
        else:
            self.missing = True
            k = 0
        self.choice_seq.append((name, k))
        return options[k]

    def assume(self, cond):
        if not bool(cond):
            raise core.Infeasible()

    def check(self, cond, label, detail=None):
        ok = bool(cond)
        self.checks.append((label, 'unsat' if ok else 'sat'))
        if not ok:
            self.failures.append((label, None if detail is None else str(detail)[:400]))

    def fail(self, label, detail=None):
        self.check(False, label, detail)

    def check_possible(self, cond, label, detail=None):
        self.check(cond, label, detail)

    def check_close(self, a, b, atol, label, detail=None):
        a = np.asarray(a, dtype=float)
        b = np.asarray(b, dtype=float)
        ok = a.shape == b.shape and bool(np.all((np.abs(a - b) <= atol * 1.000001 + 1e-12) | (np.isnan(a) & np.isnan(b))))
        self.check(ok, label, detail)

    def check_eq(self, a, b, label, detail=None):
        self.check(self._eq(a, b), label, detail)

    def _eq(self, a, b):
        if isinstance(a, (list, tuple)) and not isinstance(b, np.ndarray):
            if not isinstance(b, (list, tuple)) or len(a) != len(b):
                return False
            return all(self._eq(x, y) for x, y in zip(a, b))
        if isinstance(a, np.ndarray) or isinstance(b, np.ndarray):
            a = np.asarray(a)
            b = np.asarray(b)
            if a.shape != b.shape:
                return False
            return all(self._eq(x, y) for x, y in zip(a.flat, b.flat))
        return _tol_eq(a, b)
