"""Path exploration (DFS by re-execution, fanned out over processes), replay, evidence, verdicts."""
import concurrent.futures as cf
import hashlib
import importlib
import io
import json
import logging
import multiprocessing
import os
import re
import signal
import sys
import time
import traceback
import warnings
import zlib
from fractions import Fraction

import numpy as np
import z3

from . import core, stubs
from .core import Ctx, PathAbort, Infeasible
from .harness import HSym, HConc

VERIF = os.path.dirname(os.path.dirname(os.path.abspath(__file__)))
EXIT_OK, EXIT_VIOLATION, EXIT_HARNESS = 0, 1, 3


def _quiet():
    warnings.simplefilter('ignore')
    np.seterr(all='ignore')
    logging.disable(logging.CRITICAL)


def _jsonable(v):
    if isinstance(v, Fraction):
        return float(v) if v.denominator != 1 else int(v)
    if isinstance(v, (bool, int, float, str)) or v is None:
        return v
    if isinstance(v, np.generic):
        return v.item()
    if isinstance(v, np.ndarray):
        return [_jsonable(x) for x in v.tolist()]
    if isinstance(v, (list, tuple)):
        return [_jsonable(x) for x in v]
    if isinstance(v, dict):
        return {str(k): _jsonable(x) for k, x in v.items()}
    return repr(v)


def _frac_str(v):
    if isinstance(v, Fraction):
        return "%d/%d" % (v.numerator, v.denominator)
    return v


def _parse_val(v):
    if isinstance(v, str) and re.match(r'^-?\d+/\d+$', v):
        n, d = v.split('/')
        return Fraction(int(n), int(d))
    return v


def _to_py(v):
    if isinstance(v, Fraction):
        return float(v)
    return v


# ======================================================================================================
#  one path
# ======================================================================================================

_CONFIRMED_FP = {}


def run_concrete(mod, params, values, choices):
    """Run the harness on the unmodified real code with concrete values.  Returns the HConc object."""
    h = HConc(params, [(n, _to_py(v)) for n, v in values], choices)
    core.set_ctx(None)
    saved_disable = logging.root.manager.disable
    try:
        mod.harness(h)
    except Infeasible:
        h.infeasible = True
    except PathAbort as e:
        # an unwinding bound hit by the real code during a replay: not a reproduction of anything
        h.replay_abort = e.reason
    finally:
        logging.disable(saved_disable)
    return h


def _alarm(signum, frame):
    raise PathAbort("hard watchdog: the path (or its replay) did not finish in time", kind='watchdog')


def run_path(mod, params, prefix, opts):
    """Execute one path symbolically.  Returns a summary dict (picklable)."""
    try:
        signal.signal(signal.SIGALRM, _alarm)
        _w = opts.get('path_wall_s', 60) * 3 + 30
        if opts.get('hard_deadline'):
            # the configuration's wall budget bounds every path started under it (plus a grace period)
            _w = min(_w, max(20, opts['hard_deadline'] - time.time() + 30))
        signal.alarm(int(_w))
    except ValueError:
        pass
    try:
        return _run_path(mod, params, prefix, opts)
    except PathAbort as e:
        # raised by the hard watchdog outside the guarded region (e.g. during a replay of a looping real run)
        return {'status': 'abort:' + e.kind, 'reason': e.reason, 'ndec': 0, 'pending': [], 'checks': [], 'notes': {}, 'nchecks': 0,
                'nunknown': 0, 'solver_s': 0.0, 'inconclusive': [], 'wall_s': 0.0, 'stubs': [], 'confirmed': [], 'unconfirmed': [],
                'sample': None, 'concolic': None}
    finally:
        try:
            signal.alarm(0)
        except ValueError:
            pass


def _run_path(mod, params, prefix, opts):
    c = Ctx(prefix, timeout_ms=opts['timeout_ms'], max_decisions=opts.get('max_decisions', 4000))
    c.deadline = time.time() + opts.get('path_wall_s', 60)
    if opts.get('hard_deadline'):
        c.deadline = min(c.deadline, max(time.time() + 10, opts['hard_deadline'] + 10))
    if opts.get('second_solver_every'):
        c.options['second_solver_every'] = opts['second_solver_every']
    core.set_ctx(c)
    h = HSym(c, params)
    status = 'ok'
    reason = None
    stubs.USED.clear()
    t0 = time.time()
    try:
        with stubs.installed():
            try:
                mod.harness(h)
            except Infeasible:
                status = 'infeasible'
            except PathAbort as e:
                status = 'abort:' + e.kind
                reason = e.reason
            except RecursionError:
                status = 'abort:engine-gap'
                reason = 'recursion'
            except Exception as e:   # escaped from the harness itself: harness bug, never a verdict
                status = 'abort:harness-exception'
                reason = "%s: %s\n%s" % (type(e).__name__, e, traceback.format_exc(limit=6))
    finally:
        core.set_ctx(None)
    if c.pos < len(c.prefix) and status == 'ok':
        status = 'abort:engine-error'
        reason = 'forced prefix longer than the decisions of the path (non-deterministic harness)'
    out = {
        'status': status, 'reason': reason, 'ndec': len(c.decisions), 'pending': c.pending,
        'checks': h.checks, 'notes': h.notes, 'nchecks': c.nchecks, 'nunknown': c.nunknown,
        'solver_s': c.solver_time, 'inconclusive': list(c.inconclusive), 'wall_s': time.time() - t0,
        'stubs': sorted(stubs.USED), 'confirmed': [], 'unconfirmed': [], 'sample': None, 'concolic': None,
    }
    # ---- replay candidates on the real code
    for cand in h.candidates:
        rec = {'label': cand.label, 'detail': cand.detail, 'params': params,
               'values': [(n, _frac_str(v)) for n, v in cand.values], 'choices': cand.choices,
               'decisions': len(c.decisions)}
        fp = (cand.label, re.sub(r'[-+]?\d+(\.\d+)?(e[-+]?\d+)?', '#', str(cand.detail)))
        if _CONFIRMED_FP.get(fp, 0) >= 3:
            # the same failure (clause + detail up to numbers) already reproduced three times in this worker:
            # further instances are counted without paying for another replay
            rec['concrete_failures'] = 'same fingerprint as three replayed counterexamples'
            out['confirmed'].append(rec)
            continue
        try:
            hc = run_concrete(mod, params, cand.values, cand.choices)
            fails = hc.failures
            rec['concrete_failures'] = [(lab, str(d)[:300] if d is not None else None) for lab, d in fails]
            if any(lab == cand.label for lab, _ in fails):
                out['confirmed'].append(rec)
                _CONFIRMED_FP[fp] = _CONFIRMED_FP.get(fp, 0) + 1
            else:
                out['unconfirmed'].append(rec)
        except Exception as e:
            rec['replay_error'] = "%s: %s" % (type(e).__name__, e)
            out['unconfirmed'].append(rec)
    # ---- sample + concolic cross-check
    if status == 'ok' and opts.get('want_sample'):
        try:
            m = h.nice_model()
            vals = [(n, c.value(s, m)) for n, s in c.inputs]
            out['sample'] = {'inputs': {n: _jsonable(v) for n, v in vals}, 'choices': h.choice_seq,
                             'decisions': len(c.decisions),
                             'checks': [list(x) for x in h.checks][:12]}
            if opts.get('concolic') and h.observed:
                sym_obs = [(n, _jsonable(c.value(v, m))) for n, v in h.observed]
                hc = run_concrete(mod, params, vals, h.choice_seq)
                conc_obs = [(n, _jsonable(v)) for n, v in hc.observed]
                out['concolic'] = _compare_obs(sym_obs, conc_obs)
        except (PathAbort, Infeasible, z3.Z3Exception) as e:
            out['concolic'] = None
        except Exception as e:
            out['concolic'] = {'agree': False, 'why': "%s: %s" % (type(e).__name__, e)}
    return out


def _compare_obs(a, b):
    if [n for n, _ in a] != [n for n, _ in b]:
        return {'agree': False, 'why': 'different observables %s vs %s' % ([n for n, _ in a], [n for n, _ in b])}
    for (n, x), (_, y) in zip(a, b):
        if not _close(x, y):
            return {'agree': False, 'why': 'observable %s: symbolic %s vs real %s' % (n, str(x)[:200], str(y)[:200])}
    return {'agree': True}


def _close(x, y):
    if isinstance(x, list) or isinstance(y, list):
        if not (isinstance(x, list) and isinstance(y, list)) or len(x) != len(y):
            return False
        return all(_close(p, q) for p, q in zip(x, y))
    if x is None or y is None or isinstance(x, str) or isinstance(y, str):
        return x == y
    try:
        fx, fy = float(x), float(y)
    except (TypeError, ValueError):
        return x == y
    if fx != fx or fy != fy:
        return fx != fx and fy != fy
    return abs(fx - fy) <= 1e-7 + 1e-6 * max(abs(fx), abs(fy))


# ======================================================================================================
#  subtree worker
# ======================================================================================================

def _subtree(modname, params, prefixes, opts, max_paths, slice_s):
    _quiet()
    sys.setrecursionlimit(10000)
    mod = importlib.import_module(modname)
    stack = list(prefixes)
    results = []
    t0 = time.time()
    n = 0
    hard = opts.get('hard_deadline')
    while stack and n < max_paths and time.time() - t0 < slice_s:
        if hard and time.time() > hard:
            break          # the configuration's budget is used up: the remaining prefixes go back (reported as not explored)
        p = stack.pop()
        o = dict(opts)
        o['want_sample'] = bool(opts.get('sample_every', 0)) and (zlib.crc32(repr(p).encode()) % opts['sample_every'] == 0)
        r = run_path(mod, params, p, o)
        stack.extend(r.pop('pending'))
        results.append(r)
        n += 1
    return results, stack


class Agg(object):
    def __init__(self):
        self.paths = 0
        self.status = {}
        self.decisions = 0
        self.queries = {'unsat': 0, 'sat': 0, 'unknown': 0}
        self.labels = {}
        self.notes = {}
        self.nchecks = 0
        self.nunknown_branch = 0
        self.solver_s = 0.0
        self.confirmed = []
        self.unconfirmed = []
        self.samples = []
        self.concolic = {'agree': 0, 'disagree': 0, 'examples': []}
        self.stubs = set()
        self.reasons = {}
        self.inconclusive_paths = 0
        self.exhaustive = True

    def add(self, r):
        self.paths += 1
        self.status[r['status']] = self.status.get(r['status'], 0) + 1
        self.decisions += r['ndec']
        for lab, v in r['checks']:
            self.queries[v] += 1
            d = self.labels.setdefault(lab, {'unsat': 0, 'sat': 0, 'unknown': 0})
            d[v] += 1
        for k, v in r['notes'].items():
            self.notes[k] = self.notes.get(k, 0) + v
        self.nchecks += r['nchecks']
        self.nunknown_branch += r['nunknown']
        self.solver_s += r['solver_s']
        self.confirmed.extend(r['confirmed'])
        self.unconfirmed.extend(r['unconfirmed'][:2])
        if r['sample'] is not None and len(self.samples) < 6:
            self.samples.append(r['sample'])
        if r['concolic'] is not None:
            if r['concolic']['agree']:
                self.concolic['agree'] += 1
            else:
                self.concolic['disagree'] += 1
                if len(self.concolic['examples']) < 3:
                    self.concolic['examples'].append(r['concolic']['why'])
        self.stubs.update(r['stubs'])
        if r['status'].startswith('abort') or r['inconclusive']:
            self.inconclusive_paths += 1
            key = r['status'] + (': ' + str(r['reason'])[:160] if r['reason'] else '') \
                if r['status'].startswith('abort') else 'solver-unknown:' + ','.join(sorted(set(r['inconclusive'])))
            self.reasons[key] = self.reasons.get(key, 0) + 1


def explore(modname, params, opts, nproc, budget_s, log=None, ex=None):
    """Explore every feasible path of the harness under `params`.  Returns an Agg."""
    agg = Agg()
    t0 = time.time()
    queue = [[]]
    opts = dict(opts, hard_deadline=t0 + budget_s)
    ctx_mp = multiprocessing.get_context('fork')
    inflight = set()
    own = ex is None
    if own:
        ex = cf.ProcessPoolExecutor(max_workers=nproc, mp_context=ctx_mp)
    try:
        while queue or inflight:
            timed_out = time.time() - t0 > budget_s
            if timed_out and queue:
                agg.exhaustive = False
                agg.reasons['wall-budget: %d prefixes not explored' % len(queue)] = 1
                queue = []
            while queue and len(inflight) < nproc * 2:
                small = (len(queue) + len(inflight)) < nproc * 2
                if small:
                    batch = [queue.pop()]
                    mp_, sl = 6, 2.0
                else:
                    k = max(1, min(8, len(queue) // (nproc * 2)))
                    batch = [queue.pop() for _ in range(k)]
                    mp_, sl = 400, 6.0
                inflight.add(ex.submit(_subtree, modname, params, batch, opts, mp_, sl))
            if not inflight:
                break
            done, inflight = cf.wait(inflight, timeout=5.0, return_when=cf.FIRST_COMPLETED)
            for f in done:
                results, rest = f.result()
                for r in results:
                    agg.add(r)
                queue.extend(rest)
            if log and done:
                log("    paths=%d queue=%d inflight=%d t=%.0fs" % (agg.paths, len(queue), len(inflight), time.time() - t0))
    finally:
        if own:
            ex.shutdown()
    agg.wall_s = time.time() - t0
    return agg


def explore_serial(modname, params, opts, budget_s=600, max_paths=10 ** 9):
    """single-process exploration (debugging)"""
    _quiet()
    mod = importlib.import_module(modname)
    agg = Agg()
    stack = [[]]
    t0 = time.time()
    while stack and agg.paths < max_paths and time.time() - t0 < budget_s:
        p = stack.pop()
        o = dict(opts)
        o['want_sample'] = bool(opts.get('sample_every'))
        r = run_path(mod, params, p, o)
        stack.extend(r.pop('pending'))
        agg.add(r)
    agg.exhaustive = not stack
    agg.wall_s = time.time() - t0
    return agg


# ======================================================================================================
#  known findings
# ======================================================================================================

def load_known():
    p = os.path.join(VERIF, 'known_findings.json')
    if not os.path.exists(p):
        return {'known': [], 'fixed': []}
    with open(p) as f:
        return json.load(f)


def match_known(known, prop, config, label, detail=''):
    """a listed finding is identified by property + regexes over clause label, config label and failure detail"""
    for k in known['known']:
        if k['property'] != prop:
            continue
        if re.search(k['label'], label) and re.search(k.get('config', '.*'), config) \
                and re.search(k.get('detail', '.*'), str(detail), re.S):
            return k
    return None


# ======================================================================================================
#  property-level driver
# ======================================================================================================

def run_check(prop, tier, seed=0, only=None, nproc=None, serial=False, verbose=True):
    _quiet()
    modname = 'checks.%s' % prop.lower()
    mod = importlib.import_module(modname)
    nproc = nproc or min(16, os.cpu_count() or 4)
    t_start = time.time()
    known = load_known()

    def log(s):
        if verbose:
            print(s, file=sys.stderr, flush=True)

    configs = mod.configs(tier)
    if only:
        configs = [c for c in configs if re.search(only, c[0])]
    total_budget = getattr(mod, 'BUDGET_S', {'quick': 150, 'thorough': 1500})[tier]
    per_cfg = max(20.0, total_budget / max(1, len(configs)))
    opts_base = {'timeout_ms': 5000 if tier == 'quick' else 30000,
                 'sample_every': 7 if tier == 'quick' else 3, 'concolic': True,
                 'path_wall_s': 25 if tier == 'quick' else 120,
                 'second_solver_every': 0 if tier == 'quick' else 40}
    opts_base.update(getattr(mod, 'OPTS', {}).get(tier, {}))
    per_config = []
    violations = []
    known_hits = {}
    harness_errors = []
    total = Agg()
    ex = None if serial else cf.ProcessPoolExecutor(max_workers=nproc, mp_context=multiprocessing.get_context('fork'))
    for ci, (label, params) in enumerate(configs):
        log("[%s/%s] config %s" % (prop, tier, label))
        remaining = total_budget - (time.time() - t_start)
        n_left = len(configs) - ci
        if tier == 'thorough' and remaining < 5 and per_config:
            # total wall budget of the tier used up: the remaining configurations are reported as not explored
            skipped = Agg()
            skipped.exhaustive = False
            skipped.wall_s = 0.0
            skipped.reasons['tier wall budget exhausted before this configuration was started'] = 1
            per_config.append((label, params, skipped))
            log("    -> skipped (tier budget exhausted)")
            continue
        if tier == 'thorough':
            # fair share of what is left: time a configuration does not use rolls over to the later ones, and no
            # configuration can starve the rest of the grid
            budget = max(10.0, remaining / n_left)
            if '_budget_s' in params:
                budget = min(float(params['_budget_s']), max(10.0, remaining / n_left * 2))
        else:
            budget = max(15.0, min(per_cfg * 2, remaining)) if remaining > 15 else 15.0
            if '_budget_s' in params:
                budget = float(params['_budget_s'])
        if serial:
            agg = explore_serial(modname, params, opts_base, budget_s=budget)
        else:
            agg = explore(modname, params, opts_base, nproc, budget, log=log if verbose else None, ex=ex)
        log("    -> paths=%d status=%s queries=%s confirmed=%d unconfirmed=%d concolic=%s wall=%.1fs"
            % (agg.paths, agg.status, agg.queries, len(agg.confirmed), len(agg.unconfirmed),
               {k: v for k, v in agg.concolic.items() if k != 'examples'}, agg.wall_s))
        if agg.reasons:
            log("    inconclusive: %s" % json.dumps(agg.reasons)[:600])
        if agg.concolic['examples']:
            log("    concolic mismatch e.g.: %s" % agg.concolic['examples'][0][:300])
        for u in agg.unconfirmed[:2]:
            log("    unconfirmed candidate: %s %s" % (u['label'], str(u.get('replay_error', ''))[:200]))
        per_config.append((label, params, agg))
        # fold
        for r in agg.confirmed:
            k = match_known(known, prop, label, r['label'], r.get('detail'))
            if k is not None:
                known_hits.setdefault(k['id'], [k, 0])[1] += 1
            else:
                violations.append((label, r))
        if agg.unconfirmed:
            harness_errors.append((label, ['%d solver counterexample(s) did not reproduce on the real code (encoding/stub '
                                           'mismatch or rounding-sensitive model), e.g. clause %s values %s'
                                           % (len(agg.unconfirmed), agg.unconfirmed[0]['label'], agg.unconfirmed[0]['values'][:10])]))
        if agg.status.get('abort:harness-exception') or agg.status.get('abort:engine-error'):
            harness_errors.append((label, [k for k in agg.reasons if 'harness-exception' in k or 'engine-error' in k][:3]))
    if ex is not None:
        ex.shutdown()
    # ---- vacuity guards
    required = getattr(mod, 'REQUIRED_CLASSES', [])
    all_notes = {}
    all_labels = {}
    for label, params, agg in per_config:
        for k, v in agg.notes.items():
            all_notes[k] = all_notes.get(k, 0) + v
        for k, v in agg.labels.items():
            d = all_labels.setdefault(k, {'unsat': 0, 'sat': 0, 'unknown': 0})
            for kk in d:
                d[kk] += v[kk]
    missing = [c for c in required if not all_notes.get(c)] if not only else []
    exp_labels = getattr(mod, 'EXPECTED_LABELS', [])
    missing_labels = [lab for lab in exp_labels if lab not in all_labels] if not only else []
    if all_notes.get('second-solver:disagree'):
        harness_errors.append(('second-solver', ['cvc5 found %d final queries satisfiable that z3 reported unsat' % all_notes['second-solver:disagree']]))
    if missing:
        harness_errors.append(('vacuity', ['required classes never witnessed: %s' % missing]))
    if missing_labels:
        harness_errors.append(('vacuity', ['assertions never reached: %s' % missing_labels]))
    nskipped = sum(1 for _, _, a in per_config if a.paths == 0 and not a.exhaustive)
    npaths = sum(a.paths for _, _, a in per_config)
    nok = sum(a.status.get('ok', 0) for _, _, a in per_config)
    if npaths == 0 or nok == 0:
        harness_errors.append(('vacuity', ['no completed path']))

    # ---- evidence
    wall = time.time() - t_start
    ev = build_evidence(mod, prop, tier, seed, per_config, violations, known_hits, harness_errors, wall,
                        all_notes, all_labels)
    evdir = os.environ.get('VERIF_EVIDENCE_DIR') or os.path.join(VERIF, 'evidence')
    os.makedirs(evdir, exist_ok=True)
    with open(os.path.join(evdir, '%s.json' % prop), 'w') as f:
        json.dump(ev, f, indent=1, sort_keys=True)

    # ---- verdict lines
    for kid, (k, n) in sorted(known_hits.items()):
        print("KNOWN-FINDING: property=%s %s (%d path classes)" % (prop, k['what'], n))
    seen = set()
    code = EXIT_OK
    for label, r in violations:
        fp = (label, r['label'])
        if fp in seen:
            continue
        seen.add(fp)
        path = write_replay(prop, label, r)
        print("VIOLATION property=%s replay=%s" % (prop, path))
        print("  config=%s clause=%s detail=%s" % (label, r['label'], str(r.get('detail'))[:300]))
        code = EXIT_VIOLATION
    if code == EXIT_OK and harness_errors:
        for label, why in harness_errors:
            print("HARNESS-ERROR property=%s config=%s %s" % (prop, label, str(why)[:1000]), file=sys.stderr)
        code = EXIT_HARNESS
    if code == EXIT_OK:
        inc = sum(a.inconclusive_paths for _, _, a in per_config)
        print("OK property=%s tier=%s paths=%d queries=%s inconclusive_paths=%d exhaustive=%s configs=%d skipped_for_budget=%d wall=%.1fs"
              % (prop, tier, npaths, json.dumps(ev['coverage']['queries']), inc,
                 ev['coverage']['exhaustive'], len(per_config), nskipped, wall))
    return code


def write_replay(prop, config, r):
    d = os.path.join(os.environ.get('VERIF_REPLAY_DIR') or os.path.join(VERIF, 'replays'), prop)
    os.makedirs(d, exist_ok=True)
    body = {'property': prop, 'config': config, 'clause': r['label'], 'detail': r.get('detail'),
            'params': _jsonable(r['params']), 'values': r['values'], 'choices': r['choices'],
            'concrete_failures': r.get('concrete_failures')}
    s = json.dumps(body, sort_keys=True, indent=1)
    dig = hashlib.sha1(s.encode()).hexdigest()[:12]
    path = os.path.join(d, dig + '.json')
    with open(path, 'w') as f:
        f.write(s)
    return path


def replay_file(path):
    _quiet()
    with open(path) as f:
        body = json.load(f)
    prop = body['property']
    mod = importlib.import_module('checks.%s' % prop.lower())
    params = None
    for label, p in mod.configs('thorough') + mod.configs('quick'):
        if label == body['config']:
            params = p
            break
    if params is None:
        params = body['params']
    values = [(n, _parse_val(v)) for n, v in body['values']]
    hc = run_concrete(mod, params, values, [tuple(c) for c in body['choices']])
    if hc.failures:
        for lab, d in hc.failures:
            print("REPRODUCED property=%s clause=%s detail=%s" % (prop, lab, str(d)[:300]))
        return EXIT_VIOLATION
    print("not reproduced on the current tree: property=%s clause=%s" % (prop, body['clause']))
    return EXIT_OK


def build_evidence(mod, prop, tier, seed, per_config, violations, known_hits, harness_errors, wall,
                   all_notes, all_labels):
    queries = {'unsat': 0, 'sat': 0, 'unknown': 0}
    states = transitions = replays = 0
    solver_s = 0.0
    samples = []
    cfgs = []
    stubs_used = set()
    exhaustive = True
    inconclusive = 0
    branch_checks = 0
    conc = {'agree': 0, 'disagree': 0}
    for label, params, a in per_config:
        for k in queries:
            queries[k] += a.queries[k]
        states += a.paths
        transitions += a.decisions
        replays += len(a.confirmed) + len(a.unconfirmed) + a.concolic['agree'] + a.concolic['disagree']
        solver_s += a.solver_s
        branch_checks += a.nchecks
        stubs_used |= a.stubs
        exhaustive = exhaustive and a.exhaustive and a.inconclusive_paths == 0
        inconclusive += a.inconclusive_paths
        conc['agree'] += a.concolic['agree']
        conc['disagree'] += a.concolic['disagree']
        for s in a.samples[:2]:
            if len(samples) < 8:
                samples.append({'config': label, 'path': s})
        cfgs.append({'config': label, 'params': _jsonable(params), 'path_classes': a.paths,
                     'status': a.status, 'queries': a.queries, 'inconclusive_paths': a.inconclusive_paths,
                     'inconclusive_reasons': a.reasons, 'exhaustive': a.exhaustive and a.inconclusive_paths == 0,
                     'wall_s': round(a.wall_s, 2), 'confirmed_candidates': len(a.confirmed),
                     'unconfirmed_candidates': len(a.unconfirmed),
                     'unconfirmed_examples': [{'label': u['label'], 'values': u['values'][:12]} for u in a.unconfirmed[:2]],
                     'concolic': {k: v for k, v in a.concolic.items()}})
    if not samples:
        samples = [{'note': 'no path sample recorded'}]
    ev = {
        'property_id': prop, 'tier': tier, 'seed': int(seed), 'level': 'model_checking',
        'wall_s': round(wall, 2),
        'violations': len(violations),
        'coverage': {
            'states': max(states, 0), 'transitions': max(transitions, 0),
            'traces_validated_against_impl': replays,
            'samples': samples,
            'exhaustive': bool(exhaustive),
            'explanation': 'states = feasible path classes of the real emd functions explored by the solver-guided '
                           'executor (each class covers all real-valued inputs satisfying its path condition); '
                           'transitions = branch decisions; queries = final assertions PC & not(property) by verdict',
            'queries': queries, 'queries_by_clause': all_labels,
            'branch_feasibility_checks': branch_checks,
            'solver_time_s': round(solver_s, 2),
            'solver': 'z3 %s (python API), per-check timeout per tier' % z3.get_version_string(),
            'functions_encoded': getattr(mod, 'FUNCTIONS', []),
            'bounds': getattr(mod, 'BOUNDS', {}).get(tier, ''),
            'outside_bounds': getattr(mod, 'OUTSIDE', ''),
            'configs': cfgs,
            'stubs_exercised': sorted(stubs_used),
            'interesting_classes': all_notes,
            'inconclusive_paths': inconclusive,
            'concolic_crosscheck': conc,
            'second_solver_cvc5': {k.split(':')[1]: v for k, v in all_notes.items() if k.startswith('second-solver:')},
            'spline_max_dev_vs_fitpack': stubs.SPLINE_DEV[0],
            'known_findings_hit': {kid: n for kid, (k, n) in known_hits.items()},
            'harness_errors': [[l, w] for l, w in harness_errors],
        },
        'assumptions': getattr(mod, 'ASSUMPTIONS', []) + [
            'floating point rounding is outside the claim: doubles are modelled as exact reals',
            'z3 verdicts are trusted; unknown/time-out is reported as inconclusive, never as a pass',
        ],
    }
    return ev


def main(argv=None):
    argv = list(sys.argv[1:] if argv is None else argv)
    if not argv:
        print("usage: vcheck <ID> quick|thorough [--only RE] [--serial] | vcheck replay <path>")
        return 2
    sys.path.insert(0, VERIF)
    if argv[0] == 'replay':
        return replay_file(argv[1])
    prop = argv[0].upper()
    tier = argv[1] if len(argv) > 1 else os.environ.get('VERIF_TIER', 'quick')
    only = None
    serial = False
    if '--only' in argv:
        only = argv[argv.index('--only') + 1]
    if '--serial' in argv:
        serial = True
    seed = int(os.environ.get('VERIF_SEED', '0') or 0)
    return run_check(prop, tier, seed=seed, only=only, serial=serial)


if __name__ == '__main__':
    sys.exit(main())
