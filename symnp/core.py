"""Scalar wrappers and the per-path context of the SymNP engine.

The real emd code runs on ``dtype=object`` numpy arrays whose elements are :class:`SymReal` / :class:`SymInt` /
:class:`SymBool`.  Whenever Python needs the truth value of a :class:`SymBool` the current :class:`Ctx` decides the
branch with the solver (model-guided, see DESIGN Appendix A.2).
"""
import math
import time
from fractions import Fraction

import numpy as np
import z3

_CTX = None


def ctx():
    if _CTX is None:
        raise RuntimeError("symbolic value used outside a path context")
    return _CTX


def set_ctx(c):
    global _CTX
    _CTX = c


class PathAbort(BaseException):
    """The current path cannot be continued (engine gap, bound, watchdog).  Never a verdict."""

    def __init__(self, reason, kind='abort'):
        BaseException.__init__(self, reason)
        self.reason = reason
        self.kind = kind


class Infeasible(BaseException):
    """The path condition became unsatisfiable (pruned path)."""


def _rv(fr):
    if fr.denominator == 1:
        return z3.RealVal(fr.numerator)
    return z3.RealVal("%d/%d" % (fr.numerator, fr.denominator))


def _is_special(x):
    return isinstance(x, float) and not math.isfinite(x)


_UF = {}


def uf(name, arity):
    key = (name, arity)
    if key not in _UF:
        _UF[key] = z3.Function(name, *([z3.RealSort()] * (arity + 1)))
    return _UF[key]


class SymReal(object):
    """A real (or, as SymInt, integer) valued solver term; ``c`` holds the exact value when constant."""

    __slots__ = ('_t', 'c')
    is_int = False

    def __init__(self, t=None, c=None):
        self._t = t
        self.c = c

    @property
    def t(self):
        if self._t is None:
            if self.is_int:
                self._t = z3.IntVal(int(self.c))
            else:
                self._t = _rv(self.c)
        return self._t

    @property
    def rt(self):
        """term of Real sort"""
        if self.is_int:
            if self.c is not None:
                return _rv(Fraction(self.c))
            return z3.ToReal(self.t)
        return self.t

    # ---------------------------------------------------------------- helpers
    @staticmethod
    def const(v):
        if isinstance(v, Fraction):
            return SymReal(c=v)
        return SymReal(c=Fraction(v))

    def _new(self, other, tfun, cfun, intok=True):
        """binary arithmetic on two lifted operands"""
        if self.c is not None and other.c is not None:
            r = cfun(self.c, other.c)
            if self.is_int and other.is_int and intok:
                return SymInt(c=Fraction(r))
            return SymReal(c=Fraction(r))
        if self.is_int and other.is_int and intok:
            return SymInt(tfun(self.t, other.t))
        return SymReal(tfun(self.rt, other.rt))

    # ---------------------------------------------------------------- arithmetic
    def __add__(self, o):
        b = lift(o)
        if b is NotImplemented:
            return NotImplemented
        if _is_special(b):
            return b
        if b.c is not None and b.c == 0:
            return _promote(self, b)
        if self.c is not None and self.c == 0:
            return _promote(b, self)
        return self._new(b, lambda x, y: x + y, lambda x, y: x + y)

    __radd__ = __add__

    def __sub__(self, o):
        b = lift(o)
        if b is NotImplemented:
            return NotImplemented
        if _is_special(b):
            return -b
        if b.c is not None and b.c == 0:
            return _promote(self, b)
        if self._t is not None and b._t is not None and self._t.eq(b._t):
            return SymInt(c=Fraction(0)) if (self.is_int and b.is_int) else SymReal(c=Fraction(0))
        return self._new(b, lambda x, y: x - y, lambda x, y: x - y)

    def __rsub__(self, o):
        b = lift(o)
        if b is NotImplemented:
            return NotImplemented
        if _is_special(b):
            return b
        return b.__sub__(self)

    def __mul__(self, o):
        b = lift(o)
        if b is NotImplemented:
            return NotImplemented
        if _is_special(b):
            return _special_mul(self, b)
        for x, y in ((self, b), (b, self)):
            if x.c is not None:
                if x.c == 0:
                    return SymInt(c=Fraction(0)) if (x.is_int and y.is_int) else SymReal(c=Fraction(0))
                if x.c == 1:
                    return _promote(y, x)
        if self.c is None and b.c is None and _CTX is not None and _CTX.options.get('mul') == 'abstract':
            # uninterpreted (commutative) product: sound over-approximation for properties that do not depend on it
            x, y = self.rt, b.rt
            # canonical argument order by the structural hash (AST ids are not stable across re-executions)
            hx, hy = x.hash(), y.hash()
            if hx > hy or (hx == hy and not x.eq(y) and x.sexpr() > y.sexpr()):
                x, y = y, x
            r = uf('umul', 2)(x, y)
            if x.eq(y):
                _CTX.add(z3.And(r >= 0, (r == 0) == (x == 0)))
            return SymReal(r)
        return self._new(b, lambda x, y: x * y, lambda x, y: x * y)

    __rmul__ = __mul__

    def __truediv__(self, o):
        b = lift(o)
        if b is NotImplemented:
            return NotImplemented
        return _div(self, b)

    def __rtruediv__(self, o):
        b = lift(o)
        if b is NotImplemented:
            return NotImplemented
        return _div(b, self)

    def __floordiv__(self, o):
        b = lift(o)
        if b is NotImplemented or _is_special(b):
            return NotImplemented
        return _floordiv(self, b)

    def __rfloordiv__(self, o):
        b = lift(o)
        if b is NotImplemented or _is_special(b):
            return NotImplemented
        return _floordiv(b, self)

    def __mod__(self, o):
        b = lift(o)
        if b is NotImplemented or _is_special(b):
            return NotImplemented
        q = _floordiv(self, b)
        return self - q * b

    def __rmod__(self, o):
        b = lift(o)
        if b is NotImplemented or _is_special(b):
            return NotImplemented
        return b.__mod__(self)

    def __neg__(self):
        if self.c is not None:
            return type(self)(c=-self.c)
        return type(self)(-self.t)

    def __pos__(self):
        return self

    def __abs__(self):
        if self.c is not None:
            return type(self)(c=abs(self.c))
        return type(self)(z3.If(self.t >= 0, self.t, -self.t))

    def __pow__(self, e):
        if isinstance(e, SymReal) and e.c is not None:
            e = e.c
        if isinstance(e, (float, np.floating)) and float(e) == int(e):
            e = int(e)
        if isinstance(e, Fraction) and e.denominator == 1:
            e = int(e)
        if isinstance(e, (int, np.integer)):
            e = int(e)
            if e == 0:
                return SymInt(c=Fraction(1))
            if e < 0:
                return 1 / (self ** (-e))
            r = self
            for _ in range(e - 1):
                r = r * self
            return r
        if isinstance(e, (float, np.floating, Fraction)) and Fraction(e) == Fraction(1, 2):
            return self.sqrt()
        b = lift(e)
        if b is NotImplemented or _is_special(b):
            return NotImplemented
        return SymReal(uf('pow', 2)(self.rt, b.rt))

    def __rpow__(self, o):
        b = lift(o)
        if b is NotImplemented or _is_special(b):
            return NotImplemented
        return SymReal(uf('pow', 2)(b.rt, self.rt))

    # ---------------------------------------------------------------- numpy-callable methods
    def conjugate(self):
        return self

    conj = conjugate

    @property
    def real(self):
        return self

    @property
    def imag(self):
        return SymInt(c=Fraction(0))

    def sqrt(self):
        if self.c is not None:
            if self.c < 0:
                return float('nan')
            r = Fraction(math.isqrt(self.c.numerator), 1) / Fraction(math.isqrt(self.c.denominator), 1)
            if r * r == self.c:
                return SymReal(c=r)
        if bool(self < 0):
            return float('nan')
        c = ctx()
        if c.options.get('sqrt') in ('abstract', 'abstract-pos'):
            # lemma instances of the real sqrt: equal arguments give equal roots; sqrt(k^2 a) = k sqrt(a) (k > 0).
            # The polynomial identity between the arguments is established by exact normalisation, and the earlier
            # root is reused as a term so that later identities stay syntactic.
            k = c.options.get('sqrt_scale')
            kt = lift(k).rt if k is not None else None
            for a0, s0 in c.sqrts:
                if _poly_zero(self.rt - a0):
                    return SymReal(s0)
                if kt is not None:
                    if _poly_zero(self.rt - kt * kt * a0):
                        return SymReal(kt * s0)
                    if _poly_zero(a0 - kt * kt * self.rt):
                        return SymReal(s0 / kt)
            s = c.fresh_real('sqrt')
            # sound over-approximation: an arbitrary value that is positive exactly when the argument is
            # ('abstract-pos': arbitrary positive value; the harness restricts itself to non-degenerate arguments)
            if c.options.get('sqrt') == 'abstract-pos':
                c.add(s > 0)
            else:
                c.add(z3.And(s >= 0, (s == 0) == (self.rt == 0)))
            mine = _poly(self.rt, {})
            for a0, s0 in c.sqrts:
                if mine is not None and _poly(a0, {}) is not None:
                    # two different polynomials agree only on a null set of inputs; leaving the roots unrelated there is a
                    # (sound) over-approximation and keeps nonlinear atoms out of the path condition
                    continue
                c.add(z3.Implies(self.rt == a0, s == s0))
            c.sqrts.append((self.rt, s))
            return SymReal(s)
        s = c.fresh_real('sqrt')
        if False:
            pass
        else:
            c.add(z3.And(s >= 0, s * s == self.rt))
        return SymReal(s)

    def _unary_uf(self, name):
        if self.c is not None:
            try:
                return SymReal.const(Fraction(getattr(math, name)(float(self.c))))
            except (ValueError, OverflowError):
                return float('nan')
        return SymReal(uf(name, 1)(self.rt))

    def log10(self):
        return self._unary_uf('log10')

    def log(self):
        return self._unary_uf('log')

    def exp(self):
        return self._unary_uf('exp')

    def cos(self):
        return self._unary_uf('cos')

    def sin(self):
        return self._unary_uf('sin')

    def arctan(self):
        return self._unary_uf('atan')

    def arctan2(self, o):
        b = lift(o)
        return SymReal(uf('atan2', 2)(self.rt, b.rt))

    def floor(self):
        if self.is_int:
            return self
        if self.c is not None:
            return SymInt(c=Fraction(math.floor(self.c)))
        return SymInt(z3.ToInt(self.t))

    __floor__ = floor

    def ceil(self):
        return -((-self).floor())

    __ceil__ = ceil

    def trunc(self):
        if self.is_int:
            return self
        if self.c is not None:
            return SymInt(c=Fraction(math.trunc(self.c)))
        return SymInt(z3.If(self.t >= 0, z3.ToInt(self.t), -z3.ToInt(-self.t)))

    __trunc__ = trunc

    def rint(self):
        """round half to even (numpy semantics)"""
        if self.is_int:
            return self
        if self.c is not None:
            return SymInt(c=Fraction(round(self.c)))
        f = z3.ToInt(self.t)
        d = self.t - z3.ToReal(f)
        half = z3.RealVal("1/2")
        even = (f % 2) == 0
        return SymInt(z3.If(d < half, f, z3.If(d > half, f + 1, z3.If(even, f, f + 1))))

    def __round__(self, n=None):
        if n is None or n == 0:
            return self.rint()
        s = 10 ** n
        return (self * s).rint() / s

    # ---------------------------------------------------------------- comparisons
    def _cmp(self, o, tfun, cfun, nanval=False):
        b = lift(o)
        if b is NotImplemented:
            return NotImplemented
        if _is_special(b):
            if math.isnan(b):
                return nanval
            return bool(cfun(0.0, b))
        if self.c is not None and b.c is not None:
            return bool(cfun(self.c, b.c))
        if self.is_int and b.is_int:
            return SymBool(tfun(self.t, b.t))
        return SymBool(tfun(self.rt, b.rt))

    def __lt__(self, o):
        return self._cmp(o, lambda x, y: x < y, lambda x, y: x < y)

    def __le__(self, o):
        return self._cmp(o, lambda x, y: x <= y, lambda x, y: x <= y)

    def __gt__(self, o):
        return self._cmp(o, lambda x, y: x > y, lambda x, y: x > y)

    def __ge__(self, o):
        return self._cmp(o, lambda x, y: x >= y, lambda x, y: x >= y)

    def __eq__(self, o):
        if o is None:
            return False
        if isinstance(o, SymReal) and self._t is not None and o._t is not None and self._t.eq(o._t):
            return True
        return self._cmp(o, lambda x, y: x == y, lambda x, y: x == y)

    def __ne__(self, o):
        if o is None:
            return True
        if isinstance(o, SymReal) and self._t is not None and o._t is not None and self._t.eq(o._t):
            return False
        return self._cmp(o, lambda x, y: x != y, lambda x, y: x != y, nanval=True)

    def __hash__(self):
        return id(self)

    def __bool__(self):
        return bool(self != 0)

    # ---------------------------------------------------------------- conversions
    def __float__(self):
        if self.c is not None:
            return float(self.c)
        raise PathAbort("float() forced on a symbolic value", kind='engine-gap')

    def __int__(self):
        if self.c is not None:
            return int(self.c)
        if self.is_int:
            return ctx().concretize(self.t)
        return ctx().concretize(self.trunc().t)

    def __index__(self):
        if self.c is not None and self.c.denominator == 1:
            return int(self.c)
        if self.is_int:
            return ctx().concretize(self.t)
        raise TypeError("SymReal cannot be used as an index")

    def __repr__(self):
        if self.c is not None:
            return "S(%s)" % (self.c,)
        return "S<sym>"      # never pretty-print terms: emd formats values into log messages on every call

    __str__ = __repr__

    def __format__(self, spec):
        return repr(self)

    def astype(self, dtype):
        if dtype in (int, np.int64, np.intp, 'int'):
            return self.trunc()
        return self

    def item(self):
        return self

    def copy(self):
        return self

    @property
    def shape(self):
        return ()

    @property
    def ndim(self):
        return 0


class SymInt(SymReal):
    __slots__ = ()
    is_int = True


def _poly(t, memo, limit=20000):
    """polynomial normal form {monomial (sorted tuple of atom ids): Fraction}; atoms are non-arithmetic subterms.
    Returns None when the term is not polynomial (division by a non-constant, ite, ...) or too large."""
    k = t.get_id()
    if k in memo:
        return memo[k]
    r = None
    if z3.is_rational_value(t) or z3.is_int_value(t):
        v = Fraction(t.numerator_as_long(), t.denominator_as_long()) if z3.is_rational_value(t) else Fraction(t.as_long())
        r = {(): v} if v != 0 else {}
    elif z3.is_app(t):
        kind = t.decl().kind()
        ch = t.children()
        if kind == z3.Z3_OP_ADD:
            r = {}
            for c_ in ch:
                pc = _poly(c_, memo, limit)
                if pc is None:
                    r = None
                    break
                for m, v in pc.items():
                    nv = r.get(m, 0) + v
                    if nv == 0:
                        r.pop(m, None)
                    else:
                        r[m] = nv
        elif kind == z3.Z3_OP_SUB:
            r = dict(_poly(ch[0], memo, limit) or {}) if _poly(ch[0], memo, limit) is not None else None
            if r is not None:
                for c_ in ch[1:]:
                    pc = _poly(c_, memo, limit)
                    if pc is None:
                        r = None
                        break
                    for m, v in pc.items():
                        nv = r.get(m, 0) - v
                        if nv == 0:
                            r.pop(m, None)
                        else:
                            r[m] = nv
        elif kind == z3.Z3_OP_UMINUS:
            pc = _poly(ch[0], memo, limit)
            r = None if pc is None else {m: -v for m, v in pc.items()}
        elif kind == z3.Z3_OP_MUL:
            r = {(): Fraction(1)}
            for c_ in ch:
                pc = _poly(c_, memo, limit)
                if pc is None:
                    r = None
                    break
                nr = {}
                for m1, v1 in r.items():
                    for m2, v2 in pc.items():
                        m = tuple(sorted(m1 + m2))
                        nv = nr.get(m, 0) + v1 * v2
                        if nv == 0:
                            nr.pop(m, None)
                        else:
                            nr[m] = nv
                if len(nr) > limit:
                    r = None
                    break
                r = nr
        elif kind == z3.Z3_OP_DIV:
            pd = _poly(ch[1], memo, limit)
            pn = _poly(ch[0], memo, limit)
            if pd is not None and pn is not None and list(pd.keys()) == [()] and pd[()] != 0:
                r = {m: v / pd[()] for m, v in pn.items()}
        elif kind == z3.Z3_OP_TO_REAL:
            r = _poly(ch[0], memo, limit)
        elif kind in (z3.Z3_OP_UNINTERPRETED,) or not ch:
            r = {(k,): Fraction(1)}
        else:
            r = {(k,): Fraction(1)}     # opaque atom (ite, to_int, ...): identical subterms share the id
    memo[k] = r
    return r


def _poly_zero(t):
    """is the term identically zero as a polynomial over its atoms?  (exact expansion, no solver)"""
    try:
        p = _poly(t, {})
    except (z3.Z3Exception, RecursionError):
        return False
    return p is not None and len(p) == 0


def _promote(x, other):
    """x, as a Real-sorted value when `other` is Real-sorted"""
    if x.is_int and not other.is_int:
        return SymReal(None if x.c is not None else x.rt, x.c)
    return x


def _special_mul(s, sp):
    if math.isnan(sp):
        return sp
    if bool(s > 0):
        return sp
    if bool(s < 0):
        return -sp
    return float('nan')


def _div(a, b):
    """IEEE-style true division of lifted operands (numpy semantics: x/0 -> +-inf or nan)."""
    if _is_special(a) and _is_special(b):
        return a / b
    if _is_special(b):
        if math.isnan(b):
            return b
        return SymReal(c=Fraction(0))
    if _is_special(a):
        if math.isnan(a):
            return a
        if bool(b > 0):
            return a
        if bool(b < 0):
            return -a
        return a  # inf/0 -> inf
    if b.c is not None:
        if b.c == 0:
            return _div_zero(a)
        if a.c is not None:
            return SymReal(c=a.c / b.c)
        if b.c == 1:
            return a if not a.is_int else SymReal(a.rt)
        return SymReal(a.rt / b.rt)
    if bool(b == 0):
        return _div_zero(a)
    if a.c is not None and a.c == 0:
        return SymReal(c=Fraction(0))
    return SymReal(a.rt / b.rt)


def _div_zero(a):
    if bool(a == 0):
        return float('nan')
    if bool(a > 0):
        return float('inf')
    return float('-inf')


def _floordiv(a, b):
    if a.c is not None and b.c is not None:
        if b.c == 0:
            raise PathAbort("floor division by zero", kind='engine-gap')
        r = Fraction(math.floor(a.c / b.c))
        return SymInt(c=r)
    if bool(b == 0):
        raise PathAbort("floor division by zero", kind='engine-gap')
    if a.is_int and b.is_int and b.c is not None and b.c > 0:
        return SymInt(a.t / b.t)  # z3 int div == floor for positive divisor
    q = a.rt / b.rt
    return SymInt(z3.ToInt(q))


class SymBool(object):
    __slots__ = ('t',)

    def __init__(self, t):
        self.t = t

    def __bool__(self):
        return ctx().decide(self.t)

    def _lift(self, o):
        if isinstance(o, SymBool):
            return o.t
        if isinstance(o, (bool, np.bool_)):
            return z3.BoolVal(bool(o))
        return None

    def __and__(self, o):
        b = self._lift(o)
        if b is None:
            return NotImplemented
        return SymBool(z3.And(self.t, b))

    __rand__ = __and__

    def __or__(self, o):
        b = self._lift(o)
        if b is None:
            return NotImplemented
        return SymBool(z3.Or(self.t, b))

    __ror__ = __or__

    def __xor__(self, o):
        b = self._lift(o)
        if b is None:
            return NotImplemented
        return SymBool(z3.Xor(self.t, b))

    __rxor__ = __xor__

    def __invert__(self):
        return SymBool(z3.Not(self.t))

    def logical_not(self):
        return SymBool(z3.Not(self.t))

    def __eq__(self, o):
        b = self._lift(o)
        if b is None:
            if isinstance(o, (int, np.integer)):  # `flag == 0` idioms
                return SymBool(self.t == z3.BoolVal(bool(o))) if o in (0, 1) else False
            return NotImplemented
        return SymBool(self.t == b)

    def __ne__(self, o):
        r = self.__eq__(o)
        if r is NotImplemented:
            return r
        if isinstance(r, bool):
            return not r
        return SymBool(z3.Not(r.t))

    def __hash__(self):
        return id(self)

    def as_int(self):
        return SymInt(z3.If(self.t, z3.IntVal(1), z3.IntVal(0)))

    def __add__(self, o):
        return self.as_int() + o

    __radd__ = __add__

    def __mul__(self, o):
        return self.as_int() * o

    __rmul__ = __mul__

    def __sub__(self, o):
        return self.as_int() - o

    def __rsub__(self, o):
        return o - self.as_int()

    def __index__(self):
        return int(bool(self))

    def __int__(self):
        return int(bool(self))

    def __repr__(self):
        return "B<sym>"

    def __format__(self, spec):
        return repr(self)


def lift(o):
    """Convert a Python/numpy scalar to a Sym value; non finite floats are returned unchanged."""
    if isinstance(o, SymReal):
        return o
    if isinstance(o, SymBool):
        return o.as_int()
    if isinstance(o, (bool, np.bool_)):
        return SymInt(c=Fraction(int(o)))
    if isinstance(o, (int, np.integer)):
        return SymInt(c=Fraction(int(o)))
    if isinstance(o, (float, np.floating)):
        f = float(o)
        if not math.isfinite(f):
            return f
        return SymReal(c=Fraction(f))
    if isinstance(o, Fraction):
        return SymReal(c=o)
    if isinstance(o, np.ndarray) and o.ndim == 0:
        return lift(o.item())
    return NotImplemented


def is_sym(x):
    return isinstance(x, (SymReal, SymBool))


def is_symbolic(x):
    """True when x (scalar or array) contains a non-constant solver term."""
    if isinstance(x, SymReal):
        return x.c is None
    if isinstance(x, SymBool):
        return True
    if isinstance(x, np.ndarray) and x.dtype == object:
        for e in x.flat:
            if is_symbolic(e):
                return True
    if isinstance(x, (list, tuple)):
        return any(is_symbolic(e) for e in x)
    return False


# ======================================================================================================
#  Path context
# ======================================================================================================

class Ctx(object):
    """One execution path: solver, forced decision prefix, decisions taken, alternatives discovered."""

    def __init__(self, prefix=(), timeout_ms=5000, max_decisions=4000, max_alternatives=64):
        self.solver = z3.Solver()
        self.solver.set('timeout', int(timeout_ms))
        self.timeout_ms = int(timeout_ms)
        self.prefix = list(prefix)
        self.pos = 0
        self.decisions = []
        self.pending = []
        self.model = None
        self.nfresh = 0
        self.inconclusive = []
        self.solver_time = 0.0
        self.nchecks = 0
        self.nunknown = 0
        self.inputs = []          # (name, Sym) in creation order
        self.max_decisions = max_decisions
        self.max_alternatives = max_alternatives
        self.deadline = None
        self.decided = {}
        self.options = {}
        self.sqrts = []
        self._keep = []           # keeps decided terms alive so that AST ids are not reused

    # ---------------------------------------------------------------- solver plumbing
    def check(self, *assumptions):
        t0 = time.time()
        r = self.solver.check(*assumptions)
        self.solver_time += time.time() - t0
        self.nchecks += 1
        if r == z3.unknown:
            self.nunknown += 1
        if self.deadline is not None and time.time() > self.deadline:
            raise PathAbort("path watchdog", kind='watchdog')
        return r

    def add(self, c):
        self.solver.add(c)
        if self.model is not None:
            try:
                if not z3.is_true(self.model.eval(c, model_completion=True)):
                    self.model = None
            except z3.Z3Exception:
                self.model = None

    def fresh_real(self, tag='v'):
        self.nfresh += 1
        return z3.Real("%s!%d" % (tag, self.nfresh))

    def fresh_int(self, tag='i'):
        self.nfresh += 1
        return z3.Int("%s!%d" % (tag, self.nfresh))

    def fresh_bool(self, tag='b'):
        self.nfresh += 1
        return z3.Bool("%s!%d" % (tag, self.nfresh))

    def get_model(self):
        if self.model is None:
            r = self.check()
            if r == z3.sat:
                self.model = self.solver.model()
            elif r == z3.unsat:
                raise Infeasible()
            else:
                self.inconclusive.append('unknown-pc')
                raise PathAbort("path condition undecided (solver unknown)", kind='unknown')
        return self.model

    # ---------------------------------------------------------------- decisions
    def decide(self, cond):
        cond = z3.simplify(cond)
        if z3.is_true(cond):
            return True
        if z3.is_false(cond):
            return False
        # a condition already decided on this path (structurally identical term) is not asked again
        key = cond.get_id()
        if key in self.decided:
            return self.decided[key]
        d = self._decide(cond)
        self.decided[key] = d
        try:
            neg = z3.simplify(z3.Not(cond))
            self.decided[neg.get_id()] = not d
            self._keep.append(neg)
        except z3.Z3Exception:
            pass
        self._keep.append(cond)
        return d

    def _decide(self, cond):
        if len(self.decisions) >= self.max_decisions:
            raise PathAbort("decision bound exceeded", kind='bound')
        if self.pos < len(self.prefix):
            d = self.prefix[self.pos]
            self.pos += 1
            if not isinstance(d, bool):
                raise PathAbort("non-deterministic replay (expected bool decision)", kind='engine-error')
            self.solver.add(cond if d else z3.Not(cond))
            self.model = None
            self.decisions.append(d)
            return d
        m = self.get_model()
        v = m.eval(cond, model_completion=True)
        if z3.is_true(v):
            d = True
        elif z3.is_false(v):
            d = False
        else:
            # model could not evaluate (e.g. algebraic/UF corner): fall back to two checks
            r = self.check(cond)
            d = (r == z3.sat)
            if r == z3.unknown:
                self.inconclusive.append('unknown-branch')
            self.model = None
        other = z3.Not(cond) if d else cond
        r = self.check(other)
        if r == z3.sat:
            self.pending.append(list(self.decisions) + [not d])
        elif r == z3.unknown:
            self.inconclusive.append('unknown-branch')
        self.solver.add(cond if d else z3.Not(cond))
        self.decisions.append(d)
        return d

    def choose(self, n, tag=None):
        """n-way choice that is independent of the solver (harness enumerations)."""
        if n <= 0:
            raise ValueError("empty choice")
        if n == 1:
            return 0
        if self.pos < len(self.prefix):
            d = self.prefix[self.pos]
            self.pos += 1
            if isinstance(d, bool) or not isinstance(d, int) or d >= n:
                raise PathAbort("non-deterministic replay (expected choice)", kind='engine-error')
            self.decisions.append(d)
            return d
        for k in range(1, n):
            self.pending.append(list(self.decisions) + [k])
        self.decisions.append(0)
        return 0

    def concretize(self, term):
        """Fork over all feasible integer values of `term` (multi-way)."""
        term = z3.simplify(term)
        if z3.is_int_value(term):
            return term.as_long()
        if self.pos < len(self.prefix):
            d = self.prefix[self.pos]
            self.pos += 1
            if not (isinstance(d, tuple) and d[0] == 'i'):
                raise PathAbort("non-deterministic replay (expected int decision)", kind='engine-error')
            self.solver.add(term == d[1])
            self.model = None
            self.decisions.append(d)
            return d[1]
        m = self.get_model()
        v0 = m.eval(term, model_completion=True).as_long()
        vals = [v0]
        self.solver.push()
        try:
            while True:
                self.solver.add(term != vals[-1])
                r = self.check()
                if r != z3.sat:
                    if r == z3.unknown:
                        self.inconclusive.append('unknown-concretize')
                    break
                vals.append(self.solver.model().eval(term, model_completion=True).as_long())
                if len(vals) > self.max_alternatives:
                    self.inconclusive.append('concretize-bound')
                    break
        finally:
            self.solver.pop()
        for v in vals[1:]:
            self.pending.append(list(self.decisions) + [('i', v)])
        self.solver.add(term == v0)
        self.decisions.append(('i', v0))
        return v0

    # ---------------------------------------------------------------- model access
    def eval_term(self, t, model=None):
        m = model if model is not None else self.get_model()
        v = m.eval(t, model_completion=True)
        return z3val(v)

    def value(self, x, model=None):
        """Python value (Fraction / bool / float special) of a Sym or plain value under the model."""
        if isinstance(x, SymReal):
            if x.c is not None:
                return x.c
            return self.eval_term(x.t, model)
        if isinstance(x, SymBool):
            return self.eval_term(x.t, model)
        if isinstance(x, np.ndarray):
            out = np.empty(x.shape, dtype=object)
            for idx in np.ndindex(x.shape):
                out[idx] = self.value(x[idx], model)
            return out
        if isinstance(x, (list, tuple)):
            return type(x)(self.value(e, model) for e in x)
        if isinstance(x, np.generic):
            return x.item()
        return x


def z3val(v):
    if z3.is_true(v):
        return True
    if z3.is_false(v):
        return False
    if z3.is_int_value(v):
        return Fraction(v.as_long())
    if z3.is_rational_value(v):
        return Fraction(v.numerator_as_long(), v.denominator_as_long())
    if z3.is_algebraic_value(v):
        a = v.approx(30)
        return Fraction(a.numerator_as_long(), a.denominator_as_long())
    try:
        s = z3.simplify(v)
        if z3.is_rational_value(s):
            return Fraction(s.numerator_as_long(), s.denominator_as_long())
    except z3.Z3Exception:
        pass
    raise PathAbort("cannot evaluate model value %s" % v, kind='engine-gap')


def to_float(v):
    if isinstance(v, bool):
        return v
    if isinstance(v, Fraction):
        return float(v)
    return v
