"""C20 - logging never changes results and verbosity overrides are temporary."""
import contextlib
import io
import logging
import os
import sys

import numpy as np

import emd
from emd import logger as L
from emd import sift as S

PROPERTY = 'C20'
FUNCTIONS = ['emd.logger.wrap_verbose', 'emd.logger.set_up', 'emd.logger.set_level', 'emd.logger.get_level', 'emd.logger.disable',
             'emd.logger.enable', 'emd.logger.sift_logger', 'emd.sift.sift / mask_sift (decorated entry points)']
BOUNDS = {
    'quick': 'every history of <= 3 operations from {set_up(level or default), set_level(level), disable, enable, decorated call returning, decorated call '
             'raising} x levels {CRITICAL, WARNING, INFO, DEBUG, NOTSET} x verbose in {None, 5 levels}, from the never-set-up and from the set-up state '
             '(operation codes and parameters are solver integers, enumerated exhaustively by the solver-driven fork tree); inductive step: '
             'arbitrary console level and disabled flag, one decorated call; result independence: all four decorated variants (sift N=6, mask_sift N=5, ensemble_sift N=5 and complete_ensemble_sift N=5 with one member, cap 1 and a seeded noise stream, non-default imf_opts) under 5 logger states',
    'thorough': 'histories of <= 4 operations; result independence for sift and mask_sift',
}
OUTSIDE = 'histories longer than 4 (covered for the restore clause by the inductive step), verbose values that are not level names, log files'
ASSUMPTIONS = ['the logging module executes concretely; only the choice of operations/parameters and the signal are symbolic',
               "console output goes to a null stream (set_up binds the handler to the current sys.stdout)"]
REQUIRED_CLASSES = ['override-before-setup', 'raising-call-with-override', 'returning-call-with-override', 'disabled-then-call']
EXPECTED_LABELS = ['no-unexpected-exception', 'console-level-matches-model', 'override-restored-inductive', 'results-independent-of-logging']
BUDGET_S = {'quick': 120, 'thorough': 900}
OPTS = {'quick': {'sample_every': 101, 'concolic': False}, 'thorough': {'sample_every': 1009, 'concolic': False}}

LEVELS = ['CRITICAL', 'WARNING', 'INFO', 'DEBUG', 'NOTSET']
VERBOSE = [None] + LEVELS


def configs(tier):
    d = 3 if tier == 'quick' else 4
    out = [('history-d%d-from-never' % d, {'kind': 'history', 'depth': d, 'init': 'never'}),
           ('history-d%d-from-setup' % (d - 1), {'kind': 'history', 'depth': d - 1, 'init': 'setup'}),
           ('inductive-step', {'kind': 'inductive'}),
           ('results-sift-N6', {'kind': 'results', 'N': 6, 'fn': 'sift'}),
           ('results-mask_sift-N%d' % (5 if tier == 'quick' else 6), {'kind': 'results', 'N': 5 if tier == 'quick' else 6, 'fn': 'mask_sift'}),
           ('results-ensemble_sift-N5', {'kind': 'results', 'N': 5, 'fn': 'ensemble_sift'}),
           ('results-complete_ensemble_sift-N5', {'kind': 'results', 'N': 5, 'fn': 'complete_ensemble_sift', '_budget_s': 40})]
    return out


class Probe(Exception):
    pass


@L.wrap_verbose
def probe(x, verbose=None, fail=False):
    logging.getLogger('emd').info('probe called')
    if fail:
        raise Probe()
    return x


def reset_logger():
    lg = logging.getLogger('emd')
    for hd in list(lg.handlers):
        lg.removeHandler(hd)
    lg.addHandler(logging.NullHandler())
    lg.disabled = False
    for name, obj in logging.root.manager.loggerDict.items():
        if name.startswith('emd') and isinstance(obj, logging.Logger):
            obj.disabled = False


@contextlib.contextmanager
def live_logging():
    saved = logging.root.manager.disable
    out = io.StringIO()
    old = sys.stdout
    sys.stdout = out
    logging.disable(logging.NOTSET)
    reset_logger()
    try:
        yield
    finally:
        reset_logger()
        sys.stdout = old
        logging.disable(saved)


def harness(h):
    kind = h.params['kind']
    with live_logging():
        if kind == 'history':
            history(h)
        elif kind == 'inductive':
            inductive(h)
        else:
            results(h)


def history(h):
    depth = h.params['depth']
    model = None     # console level of the reference model (None = never set up)
    if h.params['init'] == 'setup':
        L.set_up(level='INFO')
        model = logging.INFO
    errors = []
    ok_level = True
    detail = None
    trace = []
    for k in range(depth):
        op = int(h.int('op%d' % k, 0, 5))
        par = h.int('par%d' % k, 0, 5)
        if op in (2, 3):
            h.assume(par == 0)
        elif op == 1:
            h.assume(par <= 4)
        par = int(par)
        try:
            if op == 0 and par == 5:
                L.set_up()                      # no level given: the documented default console level (INFO)
                model = logging.INFO
                trace.append('set_up()')
            elif op == 0:
                L.set_up(level=LEVELS[par])
                model = getattr(logging, LEVELS[par])
                trace.append('set_up(%s)' % LEVELS[par])
            elif op == 1:
                L.set_level(LEVELS[par])
                if model is not None:
                    model = getattr(logging, LEVELS[par])
                trace.append('set_level(%s)' % LEVELS[par])
            elif op == 2:
                L.disable()
                trace.append('disable')
            elif op == 3:
                L.enable()
                trace.append('enable')
            else:
                v = VERBOSE[par]
                trace.append('call(verbose=%s,%s)' % (v, 'raise' if op == 5 else 'return'))
                if v is not None and model is None:
                    h.note('override-before-setup')
                if v is not None and op == 5:
                    h.note('raising-call-with-override')
                if v is not None and op == 4:
                    h.note('returning-call-with-override')
                if 'disable' in trace:
                    h.note('disabled-then-call')
                try:
                    r = probe(7, verbose=v, fail=(op == 5))
                    if op == 5 or r != 7:
                        errors.append('%s: wrong result' % trace)
                except Probe:
                    if op != 5:
                        errors.append('%s: Probe escaped' % trace)
        except Exception as e:
            errors.append('%s: %s: %s' % (trace, type(e).__name__, e))
        got = L.get_level()
        if got != model and ok_level:
            ok_level = False
            detail = (list(trace), got, model)
    h.check(not errors, 'no-unexpected-exception', errors[:2])
    h.check(ok_level, 'console-level-matches-model', detail)


def inductive(h):
    """one decorated call from an arbitrary valid state: the console level afterwards is the level before"""
    lvl = int(h.int('level', 0, 4))
    dis = bool(h.bool('disabled'))
    vb = int(h.int('verbose', 0, 5))
    fail = bool(h.bool('raises'))
    L.set_up(level=LEVELS[lvl])
    if dis:
        L.disable()
    before = L.get_level()
    err = None
    try:
        probe(1, verbose=VERBOSE[vb], fail=fail)
    except Probe:
        pass
    except Exception as e:
        err = '%s: %s' % (type(e).__name__, e)
    after = L.get_level()
    logging.disable(logging.NOTSET)
    h.check(err is None, 'no-unexpected-exception', err)
    h.check(before == after, 'override-restored-inductive', (LEVELS[lvl], dis, VERBOSE[vb], fail, before, after))


def results(h):
    N = h.params['N']
    X = h.reals('x', N)
    fn = getattr(S, h.params['fn'])
    kw = {'imf_opts': {'stop_method': 'fixed', 'max_iters': 1}}
    if h.params['fn'] == 'mask_sift':
        kw.update(mask_freqs=[0.3, 0.125], mask_amp=0.5, mask_amp_mode='abs', nphases=1, max_imfs=2)
    if h.params['fn'].endswith('ensemble_sift'):
        kw.update(nensembles=1, max_imfs=1)
        h.set_option('sqrt', 'abstract')
        h.set_option('mul', 'abstract')

    def run(**extra):
        if h.params['fn'].endswith('ensemble_sift'):
            if h.symbolic:
                from symnp import stubs
                stubs.RNG.use_concrete(5)
            else:
                np.random.seed(5)
        r = fn(X, **extra, **kw)
        return np.asarray(r[0] if isinstance(r, tuple) else r)
    try:
        ref = run()                       # never set up, no override
        a = run(verbose='DEBUG')          # override before set-up
        L.set_up(level='DEBUG')
        b = run()                         # verbose console
        c = run(verbose='CRITICAL')
        L.disable()
        d = run(verbose='INFO')
        L.enable()
    except IndexError:
        return      # ensemble members with different numbers of IMFs (outside this property, see C03)
    except Exception as e:
        h.fail('no-unexpected-exception', '%s: %s' % (type(e).__name__, e))
        return
    h.check(True, 'no-unexpected-exception')
    for name, other in (('override-before-setup', a), ('DEBUG console', b), ('CRITICAL override', c), ('disabled', d)):
        h.check(other.shape == ref.shape, 'results-independent-of-logging', (name, other.shape, ref.shape))
        if other.shape == ref.shape:
            h.check_eq(other, ref, 'results-independent-of-logging', name)
