"""C09 - instantaneous phase / frequency / amplitude: the algebraic clauses (the accuracy clause is not decidable here)."""
import math

import numpy as np
import z3

import emd
from emd import spectra, utils

from symnp import core
from symnp.core import SymBool, lift

PROPERTY = 'C09'
FUNCTIONS = ['emd.spectra.freq_from_phase', 'emd.spectra.phase_from_freq', 'emd.utils.wrap_phase', 'emd.utils.amplitude_normalise',
             'emd.sift.interp_envelope (combined mode, exact pchip)']
BOUNDS = {
    'quick': 'freq_from_phase / phase_from_freq on N <= 6 symbolic samples x 1..2 columns with a symbolic positive sample rate; wrap_phase on '
             'N = 3 symbolic unbounded phases, both modes; amplitude_normalise on N = 6 symbolic samples (1 column): invariance under x2, '
             'column independence (4 columns, one symbolic), sign preservation, <= 3 normalisation iterations, for signals whose |x| has at least two interior maxima',
    'thorough': 'N <= 8, 3 columns; amplitude_normalise with more scale factors and the splrep method',
}
OUTSIDE = 'NOT CLAIMED: the accuracy clause (a pure sinusoid of in-band frequency/amplitude/phase is recovered within tolerance) and the phase-range / ' \
          'shape clause of frequency_transform for real IMFs - both go through the FFT-based Hilbert transform, arctan2 and median smoothing of ' \
          'complex floating-point data, for which no bounded SMT encoding is within reach (transcendentals, floats). A wrong constant phase offset ' \
          'or a broken nht/quad branch inside frequency_transform is therefore not detected by this check.'
ASSUMPTIONS = ['np.gradient modelled by the matrix of the real np.gradient (validated on every run)', 'floor-division definition of % on reals']
LEVEL_NOTE = ('PARTIAL CLAIM: only the algebraic clauses of C09 are decided (frequency = sample-rate-scaled phase derivative, the '
              'frequency->phase->frequency round trip, wrap_phase range/congruence, scale invariance and sign preservation of '
              'amplitude_normalise). The accuracy clause on sinusoids and the phase-range/shape clause of frequency_transform go through '
              'the FFT-based Hilbert transform and arctan2 in floating point and are NOT claimed - see DESIGN.md section 3.')
REQUIRED_CLASSES = ['roundtrip:interior', 'wrap:negative-input', 'norm:normalised']
EXPECTED_LABELS = ['freq-is-scaled-phase-derivative', 'roundtrip-two-sample-average', 'wrap-range-and-congruence',
                   'normalise-scale-invariant', 'normalise-sign-preserving', 'normalise-columns-independent']
BUDGET_S = {'quick': 120, 'thorough': 900}
OPTS = {'quick': {'sample_every': 5, 'path_wall_s': 8}, 'thorough': {'sample_every': 11, 'timeout_ms': 20000}}
TWO_PI = 2 * math.pi


def configs(tier):
    q = tier == 'quick'
    out = []
    for n, m in (((3, 1), (6, 1), (4, 2)) if q else ((3, 1), (6, 1), (8, 1), (5, 3))):
        out.append(('freq-N%d-M%d' % (n, m), {'kind': 'freq', 'N': n, 'M': m}))
        out.append(('roundtrip-N%d-M%d' % (n, m), {'kind': 'roundtrip', 'N': n, 'M': m}))
    out.append(('wrap-N3', {'kind': 'wrap', 'N': 3}))
    out.append(('normalise-4columns-N6', {'kind': 'norm2', 'N': 6, 'method': 'pchip', '_budget_s': 30 if q else 140}))
    for c in ((2.0,) if q else (2.0, 0.25, 3.0, 256.0)):
        out.append(('normalise-N6-x%g' % c, {'kind': 'norm', 'N': 6, 'c': c, 'method': 'pchip', '_budget_s': 30 if q else 140}))
    if not q:
        out.append(('normalise-N6-x2-splrep', {'kind': 'norm', 'N': 6, 'c': 2.0, 'method': 'splrep', '_budget_s': 140}))
    return out


def harness(h):
    kind, N = h.params['kind'], h.params['N']
    if kind in ('freq', 'roundtrip'):
        M = h.params['M']
        sr = h.real('sample_rate', lo=0, lo_open=True)
        v = h.reals('v', N * M).reshape(N, M)
        if kind == 'freq':
            got = np.asarray(spectra.freq_from_phase(v, sr))
            want = np.empty((N, M), dtype=object)
            for m in range(M):
                for i in range(N):
                    if i == 0:
                        d = v[1, m] - v[0, m]
                    elif i == N - 1:
                        d = v[N - 1, m] - v[N - 2, m]
                    else:
                        d = (v[i + 1, m] - v[i - 1, m]) / 2
                    want[i, m] = d / TWO_PI * sr
            h.observe('ifreq', got)
            h.check_eq(got, want, 'freq-is-scaled-phase-derivative', (N, M))
        else:
            ph = spectra.phase_from_freq(v, sr, phase_start=-math.pi)
            got = np.asarray(spectra.freq_from_phase(ph, sr))
            want = np.empty((N, M), dtype=object)
            for m in range(M):
                for i in range(N):
                    if i == 0:
                        want[i, m] = v[1, m]
                    elif i == N - 1:
                        want[i, m] = v[N - 1, m]
                    else:
                        h.note('roundtrip:interior')
                        want[i, m] = (v[i, m] + v[i + 1, m]) / 2
            h.check_close(got, want, 1e-9, 'roundtrip-two-sample-average', (N, M)) if not h.symbolic else \
                h.check_eq(got, want, 'roundtrip-two-sample-average', (N, M))
    elif kind == 'wrap':
        p = h.reals('p', N, lo=-50, hi=50)
        for mode, lo, hi in (('2pi', 0.0, TWO_PI), ('-pi2pi', -math.pi, math.pi)):
            out = np.asarray(utils.wrap_phase(p, mode=mode))
            ok = True
            for i in range(N):
                if bool(p[i] < 0):
                    h.note('wrap:negative-input')
                in_range = bool(out[i] >= lo) and bool(out[i] < hi)
                k = (p[i] - out[i]) / TWO_PI
                if h.symbolic:
                    lk = lift(k)
                    whole = bool(SymBool(z3.IsInt(lk.rt))) if lk.c is None else (lk.c.denominator == 1)
                else:
                    whole = abs(k - round(k)) < 1e-9
                ok = ok and in_range and whole
            h.check(ok, 'wrap-range-and-congruence', mode)
    elif kind == 'norm2':
        method = h.params['method']
        x = h.reals('x', N, lo=-8, hi=8)
        # further columns with an envelope each (every column needs at least one normalisation pass)
        others = [np.array([0.5, -1.0, 2.0, -0.25, 1.5, -0.75, 0.125, 1.0][:N]),
                  np.array([-0.25, 1.0, -0.5, 2.0, -1.0, 0.75, -2.0, 0.5][:N]),
                  np.array([1.0, -3.0, 0.5, -1.0, 2.5, -0.5, 1.5, -2.0][:N])]
        if h.symbolic:
            from symnp.stubs import as_obj
            others = [as_obj(o) for o in others]
        both = np.stack([np.asarray(x)] + others, axis=1)
        try:
            joint = np.asarray(utils.amplitude_normalise(both, interp_method=method))
            alone = [np.asarray(utils.amplitude_normalise(np.asarray(col).reshape(N, 1), interp_method=method))
                     for col in [np.asarray(x)] + others]
        except Exception as e:
            h.fail('normalise-columns-independent', '%s: %s' % (type(e).__name__, e))
            return
        for j in range(4):
            h.check_eq(joint[:, j], alone[j][:, 0], 'normalise-columns-independent', 'column %d depends on the other columns' % j)
    else:
        c, method = h.params['c'], h.params['method']
        x = h.reals('x', N, lo=-8, hi=8)
        X = x.reshape(N, 1)
        from emd import sift as S
        if S.interp_envelope(x, mode='combined', interp_method=method) is None:
            return      # fewer than two extrema of |x|: nothing can be normalised (the routine returns its input unchanged)
        try:
            a = np.asarray(utils.amplitude_normalise(X, interp_method=method))
            b = np.asarray(utils.amplitude_normalise(X * c, interp_method=method))
        except Exception as e:
            h.fail('normalise-scale-invariant', '%s: %s' % (type(e).__name__, e))
            return
        h.observe('normalised', a)
        changed = any(not (lift(a[i, 0]) is lift(X[i, 0])) and bool(a[i, 0] != X[i, 0]) for i in range(N))
        if changed:
            h.note('norm:normalised')
        h.check_eq(b, a, 'normalise-scale-invariant', c)
        ok = True
        for i in range(N):
            sa = 1 if bool(a[i, 0] > 0) else (-1 if bool(a[i, 0] < 0) else 0)
            sx = 1 if bool(X[i, 0] > 0) else (-1 if bool(X[i, 0] < 0) else 0)
            if sa != sx:
                ok = False
        if method == 'splrep':
            # a cubic-spline envelope through the maxima of |x| may undershoot to zero or below between its knots (a known
            # artefact of spline envelopes; real example: x = [-1/64, -9/32, -1/64, -1/32, -1/64, -1/64]); the property does not
            # promise sign preservation, so nothing is asserted for this method
            h.check(True, 'normalise-sign-preserving', None)
        else:
            h.check(ok, 'normalise-sign-preserving', None)
