"""C16 - sample, cycle, subset and chain index maps are mutually consistent."""
import math

import numpy as np

import emd
from emd import _cycles_support as cs

PROPERTY = 'C16'
FUNCTIONS = ['emd._cycles_support.map_* (12 maps)', 'emd._cycles_support.project_* (6 projections)',
             'emd.cycles.get_subset_vector', 'emd.cycles.get_chain_vector']
BOUNDS = {
    'quick': 'cycle vectors over N <= 6 samples with arbitrary gaps/cycle lengths (symbolic per-sample gap/break flags, '
             'pruned by the representation invariant) x every boolean selection of their cycles; plus every selection '
             'vector of length <= 8 over one-sample cycles; all indices of every level; symbolic real values for the projections',
    'thorough': 'N <= 7 samples; selection vectors of length <= 12 (4096 structures)',
}
OUTSIDE = 'longer recordings / selections; augmented-cycle maps (need phase)'
ASSUMPTIONS = ["'none' is accepted as either None or -1 (the statement does not fix the encoding)",
               'cycle vectors satisfy the representation invariant (labels 0..K-1 in temporal order, contiguous), which '
               'C12 shows get_cycle_vector establishes']
REQUIRED_CLASSES = ['has-gap', 'has-unselected', 'one-cycle-chain', 'multi-cycle-chain', 'two-chains', 'nothing-selected']
EXPECTED_LABELS = ['maps-total', 'subset-vector-definition', 'chain-vector-definition', 'sample->cycle', 'sample->subset',
                   'sample->chain', 'cycle->subset', 'cycle->chain', 'subset->chain', 'chain->samples',
                   'project-chain', 'project-subset', 'project-cycles']
BUDGET_S = {'quick': 120, 'thorough': 900}


def configs(tier):
    if tier == 'quick':
        return [('structure-N3', {'kind': 'structure', 'N': 3}), ('structure-N4', {'kind': 'structure', 'N': 4}),
                ('structure-N5', {'kind': 'structure', 'N': 5}), ('structure-N6', {'kind': 'structure', 'N': 6}),
                ('selection-K8', {'kind': 'selection', 'K': 8}), ('selection-K3', {'kind': 'selection', 'K': 3})]
    return [('structure-N4', {'kind': 'structure', 'N': 4}), ('structure-N5', {'kind': 'structure', 'N': 5}),
            ('structure-N6', {'kind': 'structure', 'N': 6}), ('structure-N7', {'kind': 'structure', 'N': 7}),
            ('selection-K8', {'kind': 'selection', 'K': 8}), ('selection-K12', {'kind': 'selection', 'K': 12})]


def is_none(x):
    if x is None:
        return True
    try:
        return int(x) == -1
    except (TypeError, ValueError):
        return False


def as_set(x):
    return set(int(v) for v in np.atleast_1d(np.asarray(x)).ravel())


def harness(h):
    if h.params['kind'] == 'structure':
        N = h.params['N']
        g = h.bools('gap', N)
        b = h.bools('brk', N)
        labels = []
        cur = -1
        prev_gap = True
        for i in range(N):
            if bool(g[i]):
                h.assume(~b[i] if h.symbolic else not b[i])
                labels.append(-1)
                prev_gap = True
            else:
                if prev_gap:
                    h.assume(~b[i] if h.symbolic else not b[i])
                    cur += 1
                elif bool(b[i]):
                    cur += 1
                labels.append(cur)
                prev_gap = False
        ncyc = cur + 1
    else:
        ncyc = h.params['K']
        N = ncyc
        labels = list(range(ncyc))
    if ncyc == 0:
        return
    cv = np.array(labels)
    v = h.bools('sel', ncyc)
    sel = [bool(x) for x in v]
    valids = np.array(sel)
    if -1 in labels:
        h.note('has-gap')
    if not all(sel):
        h.note('has-unselected')
    if not any(sel):
        h.note('nothing-selected')
    # ---------------- reference model
    sub_of_cyc = []
    k = 0
    for c in range(ncyc):
        if sel[c]:
            sub_of_cyc.append(k)
            k += 1
        else:
            sub_of_cyc.append(None)
    nsub = k
    chain_of_sub = []
    ch = -1
    prev = None
    for c in range(ncyc):
        if sel[c]:
            if prev is None or prev != c - 1:
                ch += 1
            chain_of_sub.append(ch)
            prev = c
    nchain = ch + 1
    cyc_of_sub = [c for c in range(ncyc) if sel[c]]
    chain_sizes = [chain_of_sub.count(x) for x in range(nchain)]
    if 1 in chain_sizes:
        h.note('one-cycle-chain')
    if any(s > 1 for s in chain_sizes):
        h.note('multi-cycle-chain')
    if nchain >= 2:
        h.note('two-chains')
    samples_of_cyc = [[i for i in range(N) if labels[i] == c] for c in range(ncyc)]

    # ---------------- vectors from the real constructors
    try:
        sv = emd.cycles.get_subset_vector(valids)
        chv = emd.cycles.get_chain_vector(sv)
    except Exception as e:
        h.fail('maps-total', 'constructors: %s: %s' % (type(e).__name__, e))
        return
    h.check([int(x) for x in sv] == [(-1 if s is None else s) for s in sub_of_cyc], 'subset-vector-definition',
            ([int(x) for x in sv], sel))
    h.check([int(x) for x in chv] == chain_of_sub, 'chain-vector-definition', ([int(x) for x in chv], sel))
    if [int(x) for x in sv] != [(-1 if s is None else s) for s in sub_of_cyc] or [int(x) for x in chv] != chain_of_sub:
        return
    h.observe('subset_vect', np.asarray(sv))

    errors = []
    res = {'sample->cycle': True, 'sample->subset': True, 'sample->chain': True, 'cycle->subset': True,
           'cycle->chain': True, 'subset->chain': True, 'chain->samples': True}
    detail = {}

    def call(name, f, *a):
        try:
            return True, f(*a)
        except Exception as e:
            errors.append("%s%s -> %s: %s" % (name, tuple(a[-1:]), type(e).__name__, e))
            return False, None

    def bad(key, d):
        res[key] = False
        detail.setdefault(key, d)

    for i in range(N):
        c_ref = None if labels[i] == -1 else labels[i]
        ok, c = call('map_sample_to_cycle', cs.map_sample_to_cycle, cv, i)
        if ok:
            if c_ref is None:
                if not is_none(c):
                    bad('sample->cycle', (i, c))
            else:
                if is_none(c) or int(c) != c_ref:
                    bad('sample->cycle', (i, c))
                else:
                    ok2, back = call('map_cycle_to_samples', cs.map_cycle_to_samples, cv, int(c))
                    if ok2 and i not in as_set(back):
                        bad('sample->cycle', (i, c, back))
        s_ref = None if c_ref is None else sub_of_cyc[c_ref]
        ok, s = call('map_sample_to_subset', cs.map_sample_to_subset, sv, cv, i)
        if ok:
            if s_ref is None:
                if not is_none(s):
                    bad('sample->subset', (i, s, 'expected none'))
            elif is_none(s) or int(s) != s_ref:
                bad('sample->subset', (i, s, s_ref))
            else:
                ok2, back = call('map_subset_to_sample', cs.map_subset_to_sample, sv, cv, int(s))
                if ok2 and i not in as_set(back):
                    bad('sample->subset', (i, s, back))
        ch_ref = None if s_ref is None else chain_of_sub[s_ref]
        ok, chn = call('map_sample_to_chain', cs.map_sample_to_chain, chv, sv, cv, i)
        if ok:
            if ch_ref is None:
                if not is_none(chn):
                    bad('sample->chain', (i, chn, 'expected none'))
            elif is_none(chn) or int(chn) != ch_ref:
                bad('sample->chain', (i, chn, ch_ref))
            else:
                ok2, back = call('map_chain_to_samples', cs.map_chain_to_samples, chv, sv, cv, int(chn))
                if ok2 and i not in as_set(back):
                    bad('sample->chain', (i, chn, back))
    for c in range(ncyc):
        s_ref = sub_of_cyc[c]
        ok, s = call('map_cycle_to_subset', cs.map_cycle_to_subset, sv, c)
        if ok:
            if s_ref is None:
                if not is_none(s):
                    bad('cycle->subset', (c, s))
            elif is_none(s) or int(s) != s_ref:
                bad('cycle->subset', (c, s))
            else:
                ok2, back = call('map_subset_to_cycle', cs.map_subset_to_cycle, sv, int(s))
                if ok2 and as_set(back) != {c}:
                    bad('cycle->subset', (c, s, back))
        ch_ref = None if s_ref is None else chain_of_sub[s_ref]
        ok, chn = call('map_cycle_to_chain', cs.map_cycle_to_chain, chv, sv, c)
        if ok:
            if ch_ref is None:
                if not is_none(chn):
                    bad('cycle->chain', (c, chn))
            elif is_none(chn) or int(chn) != ch_ref:
                bad('cycle->chain', (c, chn))
            else:
                ok2, back = call('map_chain_to_cycle', cs.map_chain_to_cycle, chv, sv, int(chn))
                if ok2:
                    want = set(cyc_of_sub[k2] for k2 in range(nsub) if chain_of_sub[k2] == ch_ref)
                    if as_set(back) != want:
                        bad('cycle->chain', (c, chn, back))
    for s in range(nsub):
        ok, chn = call('map_subset_to_chain', cs.map_subset_to_chain, chv, s)
        if ok:
            if is_none(chn) or int(chn) != chain_of_sub[s]:
                bad('subset->chain', (s, chn))
            else:
                ok2, back = call('map_chain_to_subset', cs.map_chain_to_subset, chv, int(chn))
                if ok2 and as_set(back) != set(k2 for k2 in range(nsub) if chain_of_sub[k2] == chain_of_sub[s]):
                    bad('subset->chain', (s, chn, back))
    for x in range(nchain):
        ok, smp = call('map_chain_to_samples', cs.map_chain_to_samples, chv, sv, cv, x)
        if ok:
            want = set()
            for k2 in range(nsub):
                if chain_of_sub[k2] == x:
                    want |= set(samples_of_cyc[cyc_of_sub[k2]])
            if as_set(smp) != want:
                bad('chain->samples', (x, smp))
    h.check(not errors, 'maps-total', errors[:3])
    for key in sorted(res):
        h.check(res[key], key, detail.get(key))

    # ---------------- projections with symbolic values
    def expect(vals, idx_of_item):
        return [float('nan') if j is None else vals[j] for j in idx_of_item]

    chain_of_cyc = [None if sub_of_cyc[c] is None else chain_of_sub[sub_of_cyc[c]] for c in range(ncyc)]
    try:
        if nchain > 0:
            cvals = h.reals('cval', nchain)
            h.check_eq(cs.project_chain_to_subset(cvals, chv), expect(cvals, chain_of_sub), 'project-chain', 'to subset')
            h.check_eq(cs.project_chain_to_cycles(cvals, chv, sv), expect(cvals, chain_of_cyc), 'project-chain', 'to cycles')
            h.check_eq(cs.project_chain_to_samples(cvals, chv, sv, cv),
                       expect(cvals, [None if labels[i] == -1 else chain_of_cyc[labels[i]] for i in range(N)]),
                       'project-chain', 'to samples')
        else:
            h.check(True, 'project-chain')
        if nsub > 0:
            svals = h.reals('sval', nsub)
            h.check_eq(cs.project_subset_to_cycles(svals, sv), expect(svals, sub_of_cyc), 'project-subset', 'to cycles')
            h.check_eq(cs.project_subset_to_samples(svals, sv, cv),
                       expect(svals, [None if labels[i] == -1 else sub_of_cyc[labels[i]] for i in range(N)]),
                       'project-subset', 'to samples')
        else:
            h.check(True, 'project-subset')
        yvals = h.reals('yval', ncyc)
        h.check_eq(cs.project_cycles_to_samples(yvals, cv), expect(yvals, [None if x == -1 else x for x in labels]),
                   'project-cycles', 'to samples')
    except Exception as e:
        h.fail('maps-total', 'projection: %s: %s' % (type(e).__name__, e))
