"""C17 - feature matching returns a valid one-to-one pairing."""
import math

import numpy as np

import emd

PROPERTY = 'C17'
FUNCTIONS = ['emd.cycles.kdt_match', 'emd.cycles._unique_inds']
BOUNDS = {
    'quick': 'x with <= 3 rows and y with <= 3 rows of one symbolic real feature (ties allowed, arbitrary order), K in 1..3, including x longer than y with K below the number of y rows (3x2 at K = 1: the neighbour relation is not symmetric) (3x3 rows at K = 3: a row handed out in layer j must stay unavailable in layer j+2), '
             'distance bound in {inf, symbolic positive}',
    'thorough': 'x <= 3 rows, y <= 4 rows; additionally 2 features (2x3 rows, squared distances, exact sqrt) and K up to 4',
}
OUTSIDE = 'more rows / features; the kd-tree itself (replaced by its k-nearest-neighbour contract; the real tree runs in every replay)'
ASSUMPTIONS = ['cKDTree.query contract: the k nearest by Euclidean distance in increasing order, ties in either order, missing '
               'neighbours reported as (inf, n), squeezed output for k=1']
REQUIRED_CLASSES = ['some-match', 'contested-candidate', 'tie', 'bound-excludes']
EXPECTED_LABELS = ['never-raises', 'equal-length-in-range', 'one-to-one', 'within-k-nearest', 'within-distance-bound']
BUDGET_S = {'quick': 150, 'thorough': 900}
OPTS = {'quick': {'sample_every': 13}, 'thorough': {'sample_every': 29}}


def configs(tier):
    out = []
    if tier == 'quick':
        grid = [(2, 2, 1, 'inf'), (2, 3, 1, 'inf'), (2, 3, 2, 'inf'), (3, 3, 2, 'inf'), (3, 2, 2, 'inf'), (3, 2, 1, 'inf'), (2, 3, 3, 'inf'), (3, 3, 3, 'inf'),
                (2, 3, 2, 'sym'), (3, 3, 1, 'sym')]
    else:
        grid = [(2, 3, 1, 'inf'), (3, 3, 2, 'inf'), (3, 4, 2, 'inf'), (3, 4, 3, 'inf'), (2, 4, 4, 'inf'), (3, 2, 1, 'inf'), (4, 3, 2, 'inf'), (3, 3, 3, 'sym'),
                (3, 4, 2, 'sym'), (3, 3, 1, 'sym')]
    for nx, ny, K, b in grid:
        out.append(('x%d-y%d-K%d-bound%s' % (nx, ny, K, b), {'nx': nx, 'ny': ny, 'K': K, 'bound': b, 'nf': 1}))
    if tier != 'quick':
        out.append(('x2-y3-K2-boundinf-2feat', {'nx': 2, 'ny': 3, 'K': 2, 'bound': 'inf', 'nf': 2}))
    return out


def harness(h):
    nx, ny, K, nf = h.params['nx'], h.params['ny'], h.params['K'], h.params['nf']
    x = h.reals('x', nx * nf).reshape(nx, nf)
    y = h.reals('y', ny * nf).reshape(ny, nf)
    bound = float('inf') if h.params['bound'] == 'inf' else h.real('bound', lo=0, lo_open=True)
    if nf == 1:
        xa, ya = x[:, 0], y[:, 0]
    else:
        xa, ya = x, y
    try:
        xi, yi = emd.cycles.kdt_match(xa, ya, K=K, distance_upper_bound=bound)
    except Exception as e:
        h.fail('never-raises', '%s: %s' % (type(e).__name__, e))
        return
    h.check(True, 'never-raises')
    xi = [int(v) for v in np.asarray(xi).ravel()]
    yi = [int(v) for v in np.asarray(yi).ravel()]
    h.observe('pairs', [xi, yi])
    ok = len(xi) == len(yi) and all(0 <= a < nx for a in xi) and all(0 <= b < ny for b in yi)
    h.check(ok, 'equal-length-in-range', (xi, yi))
    if not ok:
        return
    if xi:
        h.note('some-match')
    h.check(len(set(xi)) == len(xi) and len(set(yi)) == len(yi), 'one-to-one', (xi, yi))

    def dist2(i, j):
        acc = (x[i, 0] - y[j, 0]) * (x[i, 0] - y[j, 0])
        for f in range(1, nf):
            acc = acc + (x[i, f] - y[j, f]) * (x[i, f] - y[j, f])
        return acc

    def dist(i, j):
        if nf == 1:
            return abs(x[i, 0] - y[j, 0])
        return dist2(i, j)
    # class witnesses
    for i in range(nx):
        for j in range(ny):
            for m in range(j + 1, ny):
                if bool(dist(i, j) == dist(i, m)):
                    h.note('tie')
    nearest = []
    for i in range(nx):
        best = 0
        for j in range(1, ny):
            if bool(dist(i, j) < dist(i, best)):
                best = j
        nearest.append(best)
    if len(set(nearest)) < len(nearest):
        h.note('contested-candidate')
    knn_ok = True
    bound_ok = True
    detail = None
    for a, b in zip(xi, yi):
        closer = sum(1 for m in range(ny) if m != b and bool(dist(a, m) < dist(a, b)))
        if closer >= K:
            knn_ok = False
            detail = (a, b, closer)
        if not (isinstance(bound, float) and math.isinf(bound)):
            d_ab = dist(a, b)
            lim = bound if nf == 1 else bound * bound
            if not bool(d_ab <= lim):
                bound_ok = False
    if not (isinstance(bound, float) and math.isinf(bound)):
        for i in range(nx):
            if all(bool(dist(i, j) > (bound if nf == 1 else bound * bound)) for j in range(ny)):
                h.note('bound-excludes')
    else:
        h.note('bound-excludes', 0)
    h.check(knn_ok, 'within-k-nearest', (xi, yi, detail))
    h.check(bound_ok, 'within-distance-bound', (xi, yi))
