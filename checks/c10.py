"""C10 - the Hilbert-Huang spectrum bins every sample's energy exactly once."""
import numpy as np

import emd

PROPERTY = 'C10'
FUNCTIONS = ['emd.spectra.hilberthuang (dense and sparse)', 'emd.spectra.hilberthuang_1d', 'emd.spectra.define_hist_bins',
             'emd.support.ensure_2d / ensure_equal_dims']
BOUNDS = {
    'quick': 'frequency and amplitude arrays [T x M] <= 2x2 of unbounded symbolic reals (negative, out-of-range and exactly-on-edge '
             'values are covered by the solver), bin sets from the real define_hist_bins: linear with 1..3 bins and log with 2 bins, plus linear bins of inexact width (12 bins on [0.1,5] at 1x1, 9 bins on [0,0.5] at 2x1: the double-precision edges are taken as exact rationals, so e_b != e_0 + b*w), '
             'modes {energy, amplitude}, dense and sparse output, 1-D marginal; C-ordered inputs and, at 2x2, transposed (Fortran-ordered) views for either or both arrays',
    'thorough': '[T x M] <= 3x2, linear 1..4 bins, log 2..3 bins, both modes',
}
OUTSIDE = 'larger arrays; float rounding of bin edges; NaN/inf frequencies'
ASSUMPTIONS = ['sparse.coo_matrix modelled as dense accumulation where duplicate coordinates add (real scipy used in replays)']
REQUIRED_CLASSES = ['freq-below-range', 'freq-above-range', 'freq-in-range', 'two-samples-same-cell', 'non-contiguous-input']
EXPECTED_LABELS = ['never-raises', 'dense-equals-bruteforce', 'sparse-equals-dense', 'marginal-1d-equals-bruteforce',
                   'marginals-agree', 'total-in-range']
BUDGET_S = {'quick': 150, 'thorough': 900}


def configs(tier):
    out = []
    shapes = [(1, 1), (2, 1), (1, 2), (2, 2)] if tier == 'quick' else [(2, 1), (1, 2), (2, 2), (3, 1), (3, 2)]
    bins = [('lin', 1, 5, 1), ('lin', 1, 5, 2), ('lin', -1, 2, 3), ('log', 1, 8, 2)]
    if tier != 'quick':
        bins += [('lin', 1, 5, 4), ('log', 1, 8, 3)]
    for (T, M) in shapes:
        for (sc, lo, hi, nb) in bins:
            if T * M >= 4 and nb > 2 and tier == 'quick':
                continue
            if T * M >= 6 and nb > 2:
                continue
            for mode in ('energy', 'amplitude'):
                if mode == 'amplitude' and (T * M >= 4 or sc == 'log') and tier == 'quick':
                    continue
                out.append(('%dx%d-%s%d[%g,%g]-%s' % (T, M, sc, nb, lo, hi, mode),
                            {'T': T, 'M': M, 'scale': 'linear' if sc == 'lin' else 'log', 'lo': lo, 'hi': hi, 'nbins': nb, 'mode': mode}))
    # bin widths that are not exactly representable (edges from np.linspace are then not e0 + b*w): every edge is a boundary of its own
    for (T, M, lo, hi, nb) in ([(1, 1, 0.1, 5, 12), (2, 1, 0, 0.5, 9)] if tier == 'quick' else [(1, 1, 0.1, 5, 12), (2, 1, 0, 0.5, 9), (1, 2, 0.1, 5, 12)]):
        out.append(('%dx%d-lin%d[%g,%g]-energy-inexact-width' % (T, M, nb, lo, hi),
                    {'T': T, 'M': M, 'scale': 'linear', 'lo': lo, 'hi': hi, 'nbins': nb, 'mode': 'energy'}))
    # memory layout: the arrays handed in need not be C-contiguous (transposed views of [M x T] arrays, Fortran order)
    for lay in (('Ffa', 'Fa', 'Ff') if tier == 'quick' else ('Ffa', 'Fa', 'Ff')):
        for (T, M) in ([(2, 2)] if tier == 'quick' else [(2, 2), (3, 2)]):
            for mode in ('energy', 'amplitude'):
                out.append(('%dx%d-lin2[1,5]-%s-layout%s' % (T, M, mode, lay),
                            {'T': T, 'M': M, 'scale': 'linear', 'lo': 1, 'hi': 5, 'nbins': 2, 'mode': mode, 'layout': lay}))
    return out


def harness(h):
    T, M, nb, mode = h.params['T'], h.params['M'], h.params['nbins'], h.params['mode']
    lay = h.params.get('layout', 'C')
    f = h.reals('f', T * M)
    a = h.reals('a', T * M)
    f = f.reshape(M, T).T if 'f' in lay[1:] else f.reshape(T, M)
    a = a.reshape(M, T).T if 'a' in lay[1:] else a.reshape(T, M)
    if lay != 'C':
        h.note('non-contiguous-input')
    edges, centres = emd.spectra.define_hist_bins(h.params['lo'], h.params['hi'], nb, scale=h.params['scale'])
    try:
        dense = emd.spectra.hilberthuang(f, a, edges, mode=mode)
        sp = emd.spectra.hilberthuang(f, a, edges, mode=mode, return_sparse=True)
        one = emd.spectra.hilberthuang_1d(f, a, edges, mode=mode)
    except Exception as e:
        h.fail('never-raises', '%s: %s' % (type(e).__name__, e))
        return
    h.check(True, 'never-raises')
    h.observe('dense', np.asarray(dense))
    h.observe('one', np.asarray(one))
    pw = 2 if mode == 'energy' else 1
    want = np.zeros((nb, T), dtype=object)
    want1 = np.zeros((nb, M), dtype=object)
    total = 0
    cells = set()
    for t in range(T):
        for m in range(M):
            if bool(f[t, m] < edges[0]):
                h.note('freq-below-range')
                continue
            if bool(f[t, m] >= edges[-1]):
                h.note('freq-above-range')
                continue
            h.note('freq-in-range')
            for b in range(nb):
                if bool(f[t, m] >= edges[b]) and bool(f[t, m] < edges[b + 1]):
                    want[b, t] = want[b, t] + a[t, m] ** pw
                    want1[b, m] = want1[b, m] + a[t, m] ** pw
                    total = total + a[t, m] ** pw
                    if (b, t) in cells:
                        h.note('two-samples-same-cell')
                    cells.add((b, t))
    h.check_eq(dense, want, 'dense-equals-bruteforce')
    h.check_eq(np.asarray(sp.toarray()), np.asarray(dense), 'sparse-equals-dense')
    h.check_eq(one, want1, 'marginal-1d-equals-bruteforce')
    h.check_eq(np.asarray(dense).sum(axis=1), np.asarray(one).sum(axis=1), 'marginals-agree')
    h.check_eq(np.asarray(dense).sum(), total, 'total-in-range')
