"""C06 - every sift option takes effect at the stage it configures, in every variant and through every delivery route."""
import glob
import json
import os
import shutil
import tempfile

import numpy as np

import emd
from emd import sift as S
from emd.support import EMDSiftCovergeError

from checks import common
from symnp.core import SymReal, SymBool

PROPERTY = 'C06'
FUNCTIONS = ['emd.sift.sift', 'emd.sift.mask_sift', 'emd.sift.get_next_imf_mask', 'emd.sift.get_mask_freqs', 'emd.sift.ensemble_sift',
             'emd.sift._sift_with_noise', 'emd.sift.complete_ensemble_sift', 'emd.sift.sift_second_layer', 'emd.sift.mask_sift_second_layer',
             'emd.sift.get_next_imf', 'emd.sift.interp_envelope', 'emd.sift.get_padded_extrema', 'emd.sift.get_config',
             'emd.sift.SiftConfig.get_func']
BOUNDS = {
    'quick': 'N = 5..6 symbolic samples; non-default options for all three stages (fixed stop with 2 iterations, step size 0.37 or symbolic in (0,1], '
             'interpolation mono_pchip / pchip, pad width 3 / 1, custom loc/mag pad options) supplied to the six variants through keyword dictionaries, '
             'an unpacked SiftConfig and a get_func partial; every stage call on every explored path must have received exactly the supplied options',
    'thorough': 'N = 6 for all variants, two option sets, 2 ensemble members, 2 mask phases, parabolic refinement on',
}
OUTSIDE = 'worker processes are decided under the inline Pool contract (real pools run in the replays, where the guarded trace hook reports ' \
          'what each worker process received); options of np.pad beyond the modes used here'
ASSUMPTIONS = ['guarded hook AJQUINN_EMD_MIRROR_VERIF=1 reports the arguments each stage function received (symbolic runs: in-process sink; '
               'replays: per-process trace files so that worker processes are observed)',
               'ensemble noise concretised to a seeded stream (the option flow does not depend on the noise values)']
REQUIRED_CLASSES = ['stage-calls-seen:get_next_imf', 'stage-calls-seen:interp_envelope', 'stage-calls-seen:get_padded_extrema']
EXPECTED_LABELS = ['never-raises', 'imf-options-reach-get_next_imf', 'envelope-options-reach-interp_envelope',
                   'extrema-options-reach-get_padded_extrema']
BUDGET_S = {'quick': 170, 'thorough': 900}
OPTS = {'quick': {'sample_every': 23, 'concolic': False}, 'thorough': {'sample_every': 53, 'concolic': False}}

VARIANTS = ['sift', 'mask_sift', 'mask_sift_zc', 'ensemble_sift', 'complete_ensemble_sift', 'sift_second_layer', 'mask_sift_second_layer']


def configs(tier):
    q = tier == 'quick'
    out = []
    for v in VARIANTS:
        routes = ('kwargs',) if v.endswith('second_layer') else ('kwargs', 'config', 'partial')
        if v == 'sift_second_layer':
            routes = ('kwargs', 'partial+args')      # a configured partial as sift_func: call-time sift_args still win
        for r in routes:
            if q and r == 'partial' and v not in ('sift', 'mask_sift'):      # ('partial+args' always runs)
                continue
            n = 6 if (v == 'sift' or not q) else 5
            p = {'variant': v, 'route': r, 'N': n, 'optset': 'A', 'nens': 1 if q else 2, 'nphases': 1 if q else 2}
            if v in ('complete_ensemble_sift', 'mask_sift_zc') or not q:
                p['_budget_s'] = 30 if q else 200
            out.append(('%s-%s-N%d-A' % (v, r, n), p))
    out.append(('sift-kwargs-N6-B', {'variant': 'sift', 'route': 'kwargs', 'N': 6, 'optset': 'B', 'nens': 1, 'nphases': 1}))
    out.append(('mask_sift-kwargs-N5-B', {'variant': 'mask_sift', 'route': 'kwargs', 'N': 5, 'optset': 'B', 'nens': 1, 'nphases': 1}))
    out.append(('sift-config-N5-C-after-editing-another-config', {'variant': 'sift', 'route': 'config', 'N': 5, 'optset': 'C', 'nens': 1, 'nphases': 1}))
    out.append(('mask_sift-partial-N5-C-after-editing-another-config', {'variant': 'mask_sift', 'route': 'partial', 'N': 5, 'optset': 'C', 'nens': 1, 'nphases': 1}))
    return out


def option_set(h, which):
    step = h.real('env_step_size', lo=0, hi=1, lo_open=True) if which == 'B' else 0.37
    if which == 'A':
        imf = {'stop_method': 'fixed', 'max_iters': 2, 'env_step_size': step}
        env = {'interp_method': 'mono_pchip'}
        ext = {'pad_width': 3, 'parabolic_extrema': False, 'loc_pad_opts': {'mode': 'reflect', 'reflect_type': 'odd'},
               'mag_pad_opts': {'mode': 'edge'}}
    elif which == 'C':
        # only some options are supplied; the pad option dictionaries must be the documented defaults even though another
        # configuration object was edited in place beforehand (configurations must not share state)
        decoy = S.get_config('sift')
        decoy['extrema_opts/mag_pad_opts/stat_length'] = 3
        decoy['extrema_opts/mag_pad_opts/mode'] = 'mean'
        decoy['imf_opts/max_iters'] = 7
        imf = {'stop_method': 'fixed', 'max_iters': 1, 'env_step_size': step}
        env = {'interp_method': 'pchip'}
        ext = {'pad_width': 1, 'parabolic_extrema': False, 'loc_pad_opts': {'mode': 'reflect', 'reflect_type': 'odd'},
               'mag_pad_opts': {'mode': 'median', 'stat_length': 1}}
    else:
        imf = {'stop_method': 'fixed', 'max_iters': 1, 'env_step_size': step, 'sd_thresh': 0.0123}
        env = {'interp_method': 'pchip'}
        ext = {'pad_width': 1, 'parabolic_extrema': False, 'loc_pad_opts': {'mode': 'reflect', 'reflect_type': 'odd'},
               'mag_pad_opts': {'mode': 'mean', 'stat_length': 1}}
    return imf, env, ext


def norm(v):
    if isinstance(v, dict):
        return dict((k, norm(x)) for k, x in v.items())
    if isinstance(v, (list, tuple)):
        return [norm(x) for x in v]
    if isinstance(v, np.ndarray):
        return [norm(x) for x in v.tolist()]
    if isinstance(v, np.generic):
        return v.item()
    return v


def same(a, b):
    a, b = norm(a), norm(b)
    if isinstance(a, dict) and isinstance(b, dict):
        return set(a) == set(b) and all(same(a[k], b[k]) for k in a)
    if isinstance(a, list) and isinstance(b, list):
        return len(a) == len(b) and all(same(x, y) for x, y in zip(a, b))
    if isinstance(a, SymReal) or isinstance(b, SymReal):
        if isinstance(a, SymReal) and isinstance(b, SymReal):
            return a is b or (a._t is not None and b._t is not None and a._t.eq(b._t)) or (a.c is not None and a.c == b.c)
        return False
    if isinstance(a, float) and isinstance(b, float):
        return abs(a - b) <= 1e-12 * max(1.0, abs(a))
    return a == b and type(a) == type(b) or (isinstance(a, (int, float)) and isinstance(b, (int, float))
                                             and not isinstance(a, bool) and not isinstance(b, bool) and a == b)


Collector = common.Collector


def call(h, variant, route, X, imf, env, ext, p):
    base = 'mask_sift' if variant == 'mask_sift_zc' else variant
    extra = {}
    if base == 'mask_sift':
        extra = dict(mask_amp=0.5, mask_amp_mode='abs', nphases=p['nphases'], max_imfs=2,
                     mask_freqs='zc' if variant == 'mask_sift_zc' else [0.3, 0.125])
    elif base in ('ensemble_sift', 'complete_ensemble_sift'):
        extra = dict(nensembles=p['nens'], max_imfs=2 if base == 'complete_ensemble_sift' else 1, ensemble_noise=0.25,
                     noise_mode='flip' if route != 'kwargs' else 'single')
    if base == 'sift_second_layer' and route == 'partial+args':
        return S.sift_second_layer(X, sift_func=S.get_config('sift').get_func(),
                                   sift_args={'imf_opts': imf, 'envelope_opts': env, 'extrema_opts': ext, 'max_imfs': 2})
    if base == 'sift_second_layer':
        return S.sift_second_layer(X, sift_args={'imf_opts': imf, 'envelope_opts': env, 'extrema_opts': ext, 'max_imfs': 2})
    if base == 'mask_sift_second_layer':
        return S.mask_sift_second_layer(X, [0.3, 0.125, 0.05],
                                        sift_args={'imf_opts': imf, 'envelope_opts': env, 'extrema_opts': ext, 'max_imfs': 2,
                                                   'mask_amp': 0.5, 'mask_amp_mode': 'abs', 'nphases': p['nphases']})
    fn = getattr(S, base)
    if route == 'kwargs':
        return fn(X, imf_opts=imf, envelope_opts=env, extrema_opts=ext, **extra)
    cfg = S.get_config(base)
    for k, v in extra.items():
        cfg[k] = v
    for k, v in imf.items():
        cfg['imf_opts/' + k] = v
    for k, v in env.items():
        cfg['envelope_opts/' + k] = v
    for k, v in ext.items():
        if p['optset'] == 'C' and k in ('loc_pad_opts', 'mag_pad_opts'):
            continue
        cfg['extrema_opts/' + k] = v
    if route == 'config':
        return fn(X, **cfg)
    return cfg.get_func()(X)


def harness(h):
    p = h.params
    variant, route, N = p['variant'], p['route'], p['N']
    imf, env, ext = option_set(h, p['optset'])
    if 'ensemble' in variant:
        h.set_option('sqrt', 'abstract')
        h.set_option('mul', 'abstract')
    if variant.endswith('second_layer'):
        sym = h.reals('a', N)
        conc = np.array([0.5, -1.0, 2.0, -0.25, 1.5, -0.75][:N])
        if h.symbolic:
            from symnp.stubs import as_obj
            conc = as_obj(conc)
        X = np.stack([sym, conc], axis=1)
    else:
        X = h.reals('x', N)
    if h.symbolic:
        from symnp import stubs
        stubs.RNG.use_concrete(3)
    else:
        np.random.seed(3)
    with common.trace_sift(max_gni=400, max_env=4000), Collector(h) as col:
        try:
            call(h, variant, route, X, imf, env, ext, p)
        except EMDSiftCovergeError:
            pass
        except IndexError:
            if 'ensemble' not in variant:
                h.fail('never-raises', 'IndexError')
                return
        except Exception as e:
            h.fail('never-raises', '%s: %s' % (type(e).__name__, e))
            return
    h.check(True, 'never-raises')
    bad = {'get_next_imf': None, 'interp_envelope': None, 'get_padded_extrema': None}
    seen = {'get_next_imf': 0, 'interp_envelope': 0, 'get_padded_extrema': 0}
    gni_defaults = {'env_step_size': 1, 'max_iters': 1000, 'energy_thresh': None, 'stop_method': 'sd', 'sd_thresh': .1,
                    'rilling_thresh': (0.05, 0.5, 0.05)}
    for kind, rec in col.calls:
        if kind not in bad:
            continue
        seen[kind] += 1
        if bad[kind] is not None:
            continue
        if kind == 'get_next_imf':
            for k, dflt in gni_defaults.items():
                want = imf.get(k, dflt)
                if not same(rec.get(k), want):
                    bad[kind] = (k, str(rec.get(k))[:60], str(want)[:60])
        elif kind == 'interp_envelope':
            if not same(rec.get('interp_method'), env['interp_method']):
                bad[kind] = ('interp_method', rec.get('interp_method'), env['interp_method'])
            elif not same(rec.get('extrema_opts'), ext):
                bad[kind] = ('extrema_opts', str(rec.get('extrema_opts'))[:120])
        else:
            for k in ('pad_width', 'parabolic_extrema', 'loc_pad_opts', 'mag_pad_opts'):
                if not same(rec.get(k), ext[k]):
                    bad[kind] = (k, str(rec.get(k))[:80], str(ext[k])[:80])
    for kind, n in seen.items():
        if n:
            h.note('stage-calls-seen:' + kind)
    h.check(bad['get_next_imf'] is None, 'imf-options-reach-get_next_imf', bad['get_next_imf'])
    h.check(bad['interp_envelope'] is None, 'envelope-options-reach-interp_envelope', bad['interp_envelope'])
    h.check(bad['get_padded_extrema'] is None, 'extrema-options-reach-get_padded_extrema', bad['get_padded_extrema'])
