"""Helpers shared by the sift-family checks (polymorphic: they work on solver terms and on floats)."""
import contextlib
import glob
import json
import math
import os
import shutil
import tempfile
from fractions import Fraction

import numpy as np
import z3

from emd import sift as S
from symnp import core
from symnp.core import SymBool, SymReal, SymInt, lift, PathAbort


def strict_maxima(x, N=None):
    N = len(x) if N is None else N
    return [i for i in range(1, N - 1) if bool(x[i] > x[i - 1]) and bool(x[i] > x[i + 1])]


def has_two_extrema(x):
    return len(strict_maxima(x)) >= 2 and len(strict_maxima(-x)) >= 2


STEPS = {'1': 1, '1/2': 0.5, '1/3': 1 / 3}


def sift_options(h, p):
    """imf_opts / envelope_opts / extrema_opts for a configuration label"""
    stop = p['stop']
    if stop.startswith('fixed'):
        imf_opts = {'stop_method': 'fixed', 'max_iters': int(stop[5:])}
    elif stop == 'sd':
        imf_opts = {'stop_method': 'sd', 'max_iters': p.get('max_iters', 2),
                    'sd_thresh': h.real('sd_thresh', lo=0, hi=1, lo_open=True, hi_open=True)}
    elif stop == 'sd0.1':
        imf_opts = {'stop_method': 'sd', 'max_iters': p.get('max_iters', 2), 'sd_thresh': 0.1}
    elif stop == 'rilling':
        imf_opts = {'stop_method': 'rilling', 'max_iters': p.get('max_iters', 2)}
    else:
        raise ValueError(stop)
    imf_opts['env_step_size'] = STEPS[p.get('step', '1')]
    env_opts = {'interp_method': p.get('interp', 'splrep')}
    ext_opts = {'pad_width': p.get('w', 2)}
    if p.get('parab'):
        ext_opts['parabolic_extrema'] = True
    return imf_opts, env_opts, ext_opts


def rilling_formula(upper, lower, sd1, sd2, tol):
    """Documented Rilling rule as one formula (no forks): stop <=> fraction(E > sd1) <= tol and no sample has E > sd2,
    with E = |mean|/amplitude evaluated with IEEE semantics for a vanishing amplitude (x/0 = inf, 0/0 = nan)."""
    upper = np.asarray(upper, dtype=object).ravel()
    lower = np.asarray(lower, dtype=object).ravel()
    n = len(upper)
    count = SymInt(c=Fraction(0))
    anybig = z3.BoolVal(False)
    for i in range(n):
        avg = lift((upper[i] + lower[i]) / 2)
        amp = lift(abs(upper[i] - lower[i]) / 2)
        aavg = abs(avg)

        def exceeds(sd):
            big = aavg > amp * sd
            nz = avg != 0
            big_t = big.t if isinstance(big, SymBool) else z3.BoolVal(bool(big))
            nz_t = nz.t if isinstance(nz, SymBool) else z3.BoolVal(bool(nz))
            z = amp == 0
            z_t = z.t if isinstance(z, SymBool) else z3.BoolVal(bool(z))
            return z3.If(z_t, nz_t, big_t)
        e1 = exceeds(sd1)
        count = count + SymInt(z3.If(e1, z3.IntVal(1), z3.IntVal(0)))
        anybig = z3.Or(anybig, exceeds(sd2))
    metric = count / n
    # the implementation takes the mean of a boolean array in doubles: compare double(k/n) with tol for each count k
    alts = []
    for k in range(n + 1):
        gt = lift(k / n) > tol
        gt_t = gt.t if isinstance(gt, SymBool) else z3.BoolVal(bool(gt))
        alts.append(z3.And(count.t == k, gt_t))
    c1_t = z3.Or(*alts)
    stop = z3.And(z3.Not(c1_t), z3.Not(anybig))
    return SymBool(stop), metric


@contextlib.contextmanager
def rilling_model(h, enabled=True):
    """Compositional cut: in symbolic runs replace emd.sift.rilling_stop by its documented formula (which C04 proves
    equivalent to the real function for the array lengths used).  Concrete replays use the real function."""
    if not (enabled and h.symbolic):
        yield
        return
    real = S.rilling_stop

    def model(upper_env, lower_env, sd1=0.05, sd2=0.5, tol=0.05, niters=None):
        from symnp import stubs
        stubs._used('rilling_stop (replaced by its documented formula; equivalence proved in C04 unit clause)')
        return rilling_formula(upper_env, lower_env, sd1, sd2, tol)
    S.rilling_stop = model
    try:
        yield
    finally:
        S.rilling_stop = real


class Trace(object):
    def __init__(self):
        self.events = []
        self.gni_calls = 0

    def vanished_after_iteration(self):
        """was there a get_next_imf call whose envelopes disappeared only after >= 1 mean-removal iteration?"""
        cur = None
        for ev in self.events:
            if ev[0] == 'gni':
                cur = []
            elif ev[0] == 'env' and cur is not None:
                cur.append(ev[1])
            elif ev[0] == 'gni-end' and cur is not None:
                # envelopes are requested in (upper, lower) pairs
                if len(cur) >= 3 and (cur[-1] or cur[-2]):
                    return True
                cur = None
        return False


_TR = {'trace': None, 'gni': None, 'env': None, 'max_gni': 0, 'max_env': 0, 'nenv': 0}


def _traced_gni(*a, **k):
    tr = _TR['trace']
    tr.gni_calls += 1
    if tr.gni_calls > _TR['max_gni']:
        raise PathAbort("unwinding bound: more than %d single-IMF extractions" % _TR['max_gni'], kind='bound')
    tr.events.append(('gni',))
    r = _TR['gni'](*a, **k)
    tr.events.append(('gni-end', r[1]))
    return r


def _traced_env(*a, **k):
    tr = _TR['trace']
    _TR['nenv'] += 1
    if _TR['nenv'] > _TR['max_env']:
        raise PathAbort("unwinding bound: more than %d envelope evaluations" % _TR['max_env'], kind='bound')
    r = _TR['env'](*a, **k)
    tr.events.append(('env', r is None, k.get('mode', a[1] if len(a) > 1 else 'upper')))
    return r


@contextlib.contextmanager
def trace_sift(max_gni=12, max_env=80):
    """Record calls of get_next_imf / interp_envelope (attribute rebinding, no repo edit) and bound the outer loop:
    a path that exceeds the bound is reported as 'bound exceeded', never dropped silently.  The wrappers are module
    level functions so that functools.partial objects holding them can be pickled into real worker processes."""
    tr = Trace()
    real_gni, real_env = S.get_next_imf, S.interp_envelope
    if real_gni is _traced_gni:     # nested use
        yield _TR['trace']
        return
    _TR.update(trace=tr, gni=real_gni, env=real_env, max_gni=max_gni, max_env=max_env, nenv=0)
    _traced_gni.__wrapped__ = real_gni      # keeps inspect.signature (used by get_config) intact
    _traced_env.__wrapped__ = real_env
    S.get_next_imf, S.interp_envelope = _traced_gni, _traced_env
    try:
        yield tr
    finally:
        S.get_next_imf, S.interp_envelope = real_gni, real_env


def colsum(imf):
    imf = np.asarray(imf)
    acc = imf[:, 0]
    for k in range(1, imf.shape[1]):
        acc = acc + imf[:, k]
    return acc


def abs_sum(v):
    tot = abs(v[0])
    for x in v[1:]:
        tot = tot + abs(x)
    return tot


class Collector(object):
    def __init__(self, h):
        self.h = h
        self.calls = []
        self.dir = None

    def __enter__(self):
        if self.h.symbolic:
            S._verif_sink = lambda kind, payload: self.calls.append((kind, payload))
        else:
            self.dir = tempfile.mkdtemp(prefix='emd-verif-trace-')
            os.environ['AJQUINN_EMD_MIRROR_VERIF_TRACE'] = self.dir
        return self

    def __exit__(self, *a):
        if self.h.symbolic:
            S._verif_sink = None
        else:
            os.environ.pop('AJQUINN_EMD_MIRROR_VERIF_TRACE', None)
            for f in sorted(glob.glob(os.path.join(self.dir, '*.jsonl'))):
                for line in open(f):
                    rec = json.loads(line)
                    self.calls.append((rec.pop('kind'), rec))
            shutil.rmtree(self.dir, ignore_errors=True)
        return False


def interp_lib():
    """scipy.interpolate as the run sees it: the exact models in symbolic runs, the real library in replays
    (independent of the name under which the library imports it)"""
    from symnp import stubs
    if stubs.ACTIVE[0]:
        return stubs.INTERP
    import scipy.interpolate
    return scipy.interpolate
