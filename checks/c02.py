"""C02 - sifting commutes with rescaling, sign flip and time reversal (product programs)."""
import copy

import numpy as np

import emd
from emd import sift as S
from emd.support import EMDSiftCovergeError

from checks import common

PROPERTY = 'C02'
FUNCTIONS = ['emd.sift.get_next_imf', 'emd.sift.sift', 'emd.sift.mask_sift', 'emd.sift.get_next_imf_mask', 'emd.sift.get_mask_freqs',
             'emd.sift.interp_envelope', 'emd.sift.get_padded_extrema', 'emd.sift._find_extrema', 'emd.sift.sd_stop',
             'emd.sift.rilling_stop (formula cut)', 'emd.sift.fixed_stop', 'emd.sift.zero_crossing_count']
BOUNDS = {
    'quick': 'N = 6 symbolic real samples in [-8, 8], two runs of the real function in one path context (original and transformed input); scale factors '
             '{2, -1, 1/2, -4, 3, -1/3 (double), 1.4 (double)} and a symbolic non-zero factor (fixed stop); time reversal; get_next_imf and sift with '
             'stop in {fixed(1), fixed(2), sd(0.1), rilling}, step {1, 1/2}, pad width {1,2,3}, interpolation {splrep exact, pchip exact}; sift and mask_sift are '
             'run with sift_thresh=0 (the absolute threshold is scale dependent by design; the property quantifies over order-one signals); '
             'mask_sift with ratio_sig / ratio_imf amplitudes (one ratio for all IMFs, or one per IMF), explicit mask frequencies and zero-crossing frequency, 1 phase',
    'thorough': 'N <= 7, all scale factors +-2^k for |k| <= 8 on the fixed(1) configuration, more stop/step/pad/interpolation combinations, masks with 2 phases',
}
OUTSIDE = 'negative factors for masked sifts: with an odd number of mask phases the mask set {cos(wt+p)} is not symmetric under a sign flip, so the law cannot hold for any implementation, and with an even number it holds only up to the rounding of the double-precision cosine table (cos(a+pi) != -cos(a) bit for bit), which the exact encoding exposes as tie-breaking differences; float rounding (equalities are exact over the reals; the bit-for-bit clause for powers of two is not decided), longer signals, ' \
          'reversal of the masked sift (not claimed by the property)'
ASSUMPTIONS = ['std() in the ratio mask amplitudes: sqrt is an abstract non-negative function with the lemma instances '
               'sqrt(a) = sqrt(b) when a = b and sqrt(k^2 a) = k sqrt(a) for the scale factor of the run (true of the real sqrt)',
               'rilling_stop replaced by its formula (C04 unit clause)']
REQUIRED_CLASSES = ['iterated', 'two-imfs', 'mask:two-imfs']
EXPECTED_LABELS = ['same-outcome', 'imf-equivariant', 'flag-invariant', 'sift-equivariant', 'mask-sift-equivariant']
BUDGET_S = {'quick': 170, 'thorough': 900}
OPTS = {'quick': {'sample_every': 9, 'path_wall_s': 12}, 'thorough': {'sample_every': 9, 'timeout_ms': 20000}}


def configs(tier):
    q = tier == 'quick'
    out = []

    def cfg(fn, tr, stop='fixed1', step='1', interp='splrep', w=2, n=6, **kw):
        d = {'fn': fn, 'tr': tr, 'stop': stop, 'step': step, 'interp': interp, 'w': w, 'N': n}
        d.update(kw)
        label = '%s-N%d-%s-%s-step%s-%s-w%d' % (fn, n, tr, stop, step, interp, w)
        if fn == 'mask':
            label += '-%s-%s-%dph%s' % (kw.get('mode'), 'zc' if kw.get('freqs') == 'zc' else 'list', kw.get('nphases', 1),
                                        '-amp-per-imf' if 'amp' in kw else '')
        return (label, d)
    if q:
        out += [cfg('gni', 'x-1'), cfg('gni', 'x2', stop='fixed2', step='1/2', w=1), cfg('gni', 'x-1', stop='rilling'), cfg('gni', 'x1.4', w=3),
                cfg('gni', 'rev', stop='fixed2'), cfg('gni', 'rev', stop='rilling', w=3), cfg('gni', 'xsym'), cfg('gni', 'rev', n=7),
                cfg('gni', 'x-1/3', interp='pchip'), cfg('gni', 'rev', interp='pchip', stop='fixed2', step='1/2'),
                cfg('gni', 'rev', stop='sd0.1', _budget_s=15),
                cfg('sift', 'x-4', stop='fixed2'), cfg('sift', 'rev', w=1), cfg('sift', 'x2', stop='rilling', step='1/2', _budget_s=25),
                cfg('mask', 'x2', mode='ratio_sig', freqs=[0.3, 0.125], _budget_s=25), cfg('mask', 'x1/2', mode='ratio_imf', freqs=[0.3, 0.125], _budget_s=30),
                cfg('mask', 'x3', mode='ratio_sig', freqs='zc', _budget_s=25),
                cfg('mask', 'x2', mode='ratio_sig', freqs=[0.3, 0.125], amp=[0.5, 0.25], _budget_s=25),
                cfg('mask', 'x1/2', mode='ratio_imf', freqs=[0.3, 0.125], amp=[0.5, 0.25], _budget_s=30)]
    else:
        for k in range(-8, 9):
            for sgn in ('', '-'):
                if k == 0 and sgn == '':
                    continue
                out.append(cfg('gni', 'x%s2^%d' % (sgn, k)))
        for stop in ('fixed1', 'fixed2', 'rilling', 'sd0.1'):
            for tr in ('x-1', 'x3', 'x1.4', 'rev'):
                for (step, w, interp) in (('1', 2, 'splrep'), ('1/2', 1, 'splrep'), ('1', 3, 'pchip')):
                    if stop == 'sd0.1' and interp == 'pchip':
                        continue
                    out.append(cfg('gni', tr, stop=stop, step=step, interp=interp, w=w))
        out += [cfg('gni', 'xsym'), cfg('gni', 'xsym', stop='fixed2', step='1/2'), cfg('gni', 'rev', n=7), cfg('gni', 'x-1/3', n=7)]
        for tr in ('x-4', 'x1.4', 'rev'):
            for stop in ('fixed1', 'fixed2', 'rilling'):
                out.append(cfg('sift', tr, stop=stop))
        out += [cfg('sift', 'rev', interp='pchip'), cfg('sift', 'x3', interp='pchip', stop='fixed2')]
        for mode in ('ratio_sig', 'ratio_imf'):
            for tr in ('x2', 'x1/4', 'x3'):
                out.append(cfg('mask', tr, mode=mode, freqs=[0.3, 0.125]))
            out.append(cfg('mask', 'x2', mode=mode, freqs='zc', nphases=2))
            out.append(cfg('mask', 'x1/2', mode=mode, freqs=[0.3, 0.125], nphases=2))
            out.append(cfg('mask', 'x3', mode=mode, freqs=[0.3, 0.125], amp=[0.5, 0.25]))
            out.append(cfg('mask', 'x1/4', mode=mode, freqs=[0.3, 0.125], amp=(0.75, 0.5)))
        # the tier budget is strict: run the configurations that witness the required classes first
        out.sort(key=lambda c: 0 if c[1]['fn'] != 'gni' else 1)
        for c in out:
            if c[1]['fn'] != 'gni':
                c[1].setdefault('_budget_s', 60)
    return out


def THRESH(h):
    """exact runs switch the (scale dependent) absolute threshold off; float replays keep the default, which only ever
    cuts off residuals at rounding-noise level for the order-one inputs used here (with 0 a float sift need not terminate)"""
    return 0 if h.symbolic else 1e-8


def factor(h, tr):
    """scale factor of a transform label 'x<...>' (None for reversal)"""
    if tr == 'rev':
        return None
    if tr == 'xsym':
        c = h.real('c')
        h.assume(c != 0)
        return c
    v = tr[1:]
    if '^' in v:
        base, ex = v.split('^')
        return float(base) ** int(ex) if not base.startswith('-') else -(float(base[1:]) ** int(ex))
    if '/' in v:
        a, b = v.split('/')
        return float(a) / float(b)
    return float(v)


def harness(h):
    p = h.params
    N, fn, tr = p['N'], p['fn'], p['tr']
    X = h.reals('x', N, lo=-8, hi=8)     # 'signals of order-one amplitude'
    c = factor(h, tr)
    Y = X[::-1].copy() if c is None else X * c

    def back(arr):
        """map the result for the original input onto the expected result for the transformed input"""
        arr = np.asarray(arr)
        return arr[::-1] if c is None else arr * c

    imf_opts, env_opts, ext_opts = common.sift_options(h, p)
    kw = dict(envelope_opts=env_opts, extrema_opts=ext_opts)
    if fn == 'mask':
        h.set_option('sqrt', 'abstract-pos')
        if c is not None and h.symbolic:
            h.set_option('sqrt_scale', abs(c))

    def run(Z):
        try:
            if fn == 'gni':
                return ('ok',) + tuple(S.get_next_imf(Z, **kw, **imf_opts))
            if fn == 'sift':
                return ('ok', S.sift(Z, sift_thresh=THRESH(h), imf_opts=imf_opts, **kw))
            return ('ok', S.mask_sift(Z, mask_amp=copy.deepcopy(p.get('amp', 0.5)), mask_amp_mode=p['mode'], mask_freqs=p['freqs'], max_imfs=2, sift_thresh=THRESH(h),
                                      nphases=p.get('nphases', 1), imf_opts=imf_opts, **kw))
        except EMDSiftCovergeError:
            return ('convergence-error',)

    with common.rilling_model(h, enabled=p['stop'] == 'rilling'), common.trace_sift(max_gni=60, max_env=600) as tr_:
        try:
            r1 = run(X)
            r2 = run(Y)
        except Exception as e:
            h.fail('same-outcome', 'unexpected %s: %s' % (type(e).__name__, e))
            return
    h.check(r1[0] == r2[0], 'same-outcome', (r1[0], r2[0]))
    if r1[0] != 'ok' or r2[0] != 'ok':
        return
    if tr_.vanished_after_iteration() or any(ev[0] == 'env' and not ev[1] for ev in tr_.events):
        h.note('iterated')
    if fn == 'gni':
        h.observe('imf', np.asarray(r1[1]))
        h.check_eq(np.asarray(r2[1]), back(r1[1]), 'imf-equivariant', tr)
        h.check(bool(r1[2]) == bool(r2[2]), 'flag-invariant', (bool(r1[2]), bool(r2[2])))
    else:
        a, b = np.asarray(r1[1]), np.asarray(r2[1])
        lab = 'sift-equivariant' if fn == 'sift' else 'mask-sift-equivariant'
        if a.shape[1] >= 2:
            h.note('two-imfs' if fn == 'sift' else 'mask:two-imfs')
        h.check(a.shape == b.shape, lab, ('shapes', a.shape, b.shape))
        if a.shape == b.shape:
            h.check_eq(b, back(a), lab, tr)
