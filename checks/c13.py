"""C13 - good cycles are exactly those meeting the documented phase criteria (incl. mask and container flag)."""
import math

import numpy as np

import emd

PROPERTY = 'C13'
FUNCTIONS = ['emd.cycles.get_cycle_vector(return_good=True, mask=...)', 'emd.cycles.is_good',
             'emd.cycles.Cycles.__init__ / compute_cycle_metric / add_cycle_metric',
             'emd._cycles_support.make_slice_cache / get_slice_stat_from_samples',
             'emd.support.ensure_2d / ensure_equal_dims / ensure_vector']
BOUNDS = {
    'quick': 'N <= 5 symbolic real phases in [0,2pi) (N=6 without mask), symbolic phase_edge in (0,pi/2], '
             'symbolic boolean mask of length N (or none), phase_step = 1.5pi; container built from N <= 4 phases with >= 1 wrap; is_good on one segment of N <= 3 symbolic phases in [-1, 2pi+1] (one-sided edge criteria)',
    'thorough': 'N <= 7 (no mask), N <= 6 (symbolic mask); container N <= 5; symbolic phase_edge',
}
OUTSIDE = 'longer series; waveform/control-point criterion (imf argument); phases exactly on the edge tolerance are not ' \
          'asserted either way (the statement leaves strictness open)'
ASSUMPTIONS = ['phases already wrapped into [0,2pi) for the vector and container clauses (the is_good unit clause also covers values just outside)', 'phase_step fixed to its default 1.5*pi in this check (C12 varies it)']
REQUIRED_CLASSES = ['good-segment', 'bad-segment:not-increasing', 'bad-segment:start', 'bad-segment:end', 'bad-segment:mask',
                    'container-built', 'unit:start-below-zero', 'unit:end-above-2pi']
EXPECTED_LABELS = ['never-raises', 'good-labels-match-criteria', 'good-is-renumbered-subset-of-all', 'container-flag-matches-criteria',
                   'is_good-matches-criteria']
BUDGET_S = {'quick': 150, 'thorough': 900}

TWO_PI = 2 * math.pi
STEP = 1.5 * math.pi


def configs(tier):
    out = []
    if tier == 'quick':
        grid = [(2, True), (3, True), (4, True), (5, True), (5, False), (6, False)]
        cont = (3, 4)
    else:
        grid = [(2, True), (3, True), (4, True), (5, True), (6, True), (6, False), (7, False)]
        cont = (3, 4, 5)
    for n, m in grid:
        out.append(("vector-N%d-%s" % (n, 'mask' if m else 'nomask'), {'kind': 'vector', 'N': n, 'mask': m}))
    for n in cont:
        out.append(("container-N%d" % n, {'kind': 'container', 'N': n}))
    # the criteria themselves on one segment, also for phase values outside [0, 2pi]: 'above 0' and 'below 2pi' are one-sided
    for n in ((2, 3) if tier == 'quick' else (2, 3, 4, 5)):
        out.append(("is_good-N%d" % n, {'kind': 'isgood', 'N': n}))
    return out


def segments(p, N):
    """wrap-delimited segments [(start, end_inclusive)] recomputed from the phase; None if there is no wrap"""
    w = [bool(abs(p[i + 1] - p[i]) > STEP) for i in range(N - 1)]
    if not any(w):
        return None
    starts = [0] + [i + 1 for i in range(N - 1) if w[i]]
    ends = [i for i in range(N - 1) if w[i]] + [N - 1]
    return list(zip(starts, ends))


def criteria(h, p, s, e, edge, mask):
    """(weak, strong): upper and lower reading of the documented criteria for segment s..e (boundary values left open)"""
    incr = all(bool(p[i + 1] > p[i]) for i in range(s, e))
    st_weak = bool(p[s] <= edge)
    st_strong = bool(p[s] < edge)
    en_weak = bool(p[e] >= TWO_PI - edge)
    en_strong = bool(p[e] > TWO_PI - edge)
    mk = True if mask is None else all(bool(mask[i]) for i in range(s, e + 1))
    if not incr:
        h.note('bad-segment:not-increasing')
    if not st_weak:
        h.note('bad-segment:start')
    if not en_weak:
        h.note('bad-segment:end')
    if not mk:
        h.note('bad-segment:mask')
    weak = incr and st_weak and en_weak and mk
    strong = incr and st_strong and en_strong and mk
    if strong:
        h.note('good-segment')
    return weak, strong


def isgood(h):
    N = h.params['N']
    p = h.reals('p', N, lo=-1, hi=TWO_PI + 1)
    edge = h.real('edge', lo=0, hi=math.pi / 2, lo_open=True)
    try:
        got = bool(emd.cycles.is_good(p, phase_edge=edge))
    except Exception as e:
        h.fail('never-raises', "is_good: %s: %s" % (type(e).__name__, e))
        return
    incr = all(bool(p[i + 1] > p[i]) for i in range(N - 1))
    st_weak = bool(p[0] >= 0) and bool(p[0] <= edge)
    st_strong = bool(p[0] > 0) and bool(p[0] < edge)
    en_weak = bool(p[-1] <= TWO_PI) and bool(p[-1] >= TWO_PI - edge)
    en_strong = bool(p[-1] < TWO_PI) and bool(p[-1] > TWO_PI - edge)
    if bool(p[0] < 0):
        h.note('unit:start-below-zero')
    if bool(p[-1] > TWO_PI):
        h.note('unit:end-above-2pi')
    weak = incr and st_weak and en_weak
    strong = incr and st_strong and en_strong
    h.check(got if strong else (not got if not weak else True), 'is_good-matches-criteria', (got, incr, st_weak, en_weak))


def harness(h):
    if h.params['kind'] == 'isgood':
        return isgood(h)
    N = h.params['N']
    p = h.reals('p', N, lo=0, hi=TWO_PI, hi_open=True)
    edge = h.real('edge', lo=0, hi=math.pi / 2, lo_open=True)
    if h.params['kind'] == 'vector':
        mask = h.bools('m', N) if h.params['mask'] else None
        try:
            cv = emd.cycles.get_cycle_vector(p, return_good=True, mask=mask, phase_edge=edge)
            allv = emd.cycles.get_cycle_vector(p, return_good=False, phase_edge=edge)
        except Exception as e:
            h.fail('never-raises', "%s: %s" % (type(e).__name__, e))
            return
        h.check(True, 'never-raises')
        h.observe('good_vector', cv)
        L = [int(v) for v in cv[:, 0]]
        A = [int(v) for v in allv[:, 0]]
        segs = segments(p, N)
        if segs is None:
            h.check(all(v == -1 for v in L), 'good-labels-match-criteria', L)
            return
        nxt_lo = 0   # label the segment must get if all strong segments so far (and only weak ones) were labelled
        ok = True
        count = 0
        for (s, e) in segs:
            weak, strong = criteria(h, p, s, e, edge, mask)
            lab = L[s:e + 1]
            labelled = all(v == count for v in lab)
            unlabelled = all(v == -1 for v in lab)
            if strong:
                ok = ok and labelled
            elif not weak:
                ok = ok and unlabelled
            else:
                ok = ok and (labelled or unlabelled)
            if labelled:
                count += 1
        h.check(ok, 'good-labels-match-criteria', (L, segs))
        # order preserving renumbering of a subset of the all-cycles partition
        ok = True
        last = -1
        for (s, e) in segs:
            if len(set(A[s:e + 1])) != 1 or len(set(L[s:e + 1])) != 1:
                ok = False
            if L[s] != -1:
                if L[s] != last + 1:
                    ok = False
                last = L[s]
        h.check(ok, 'good-is-renumbered-subset-of-all', (L, A))
    else:
        segs = segments(p, N)
        if segs is None:
            return   # containers over wrap-free phase are outside this check
        h.note('container-built')
        try:
            C = emd.cycles.Cycles(p, phase_edge=edge)
            flags = C.metrics['is_good']
        except Exception as e:
            h.fail('never-raises', "%s: %s" % (type(e).__name__, e))
            return
        h.check(True, 'never-raises')
        h.observe('is_good', np.asarray(flags))
        ok = len(flags) == len(segs)
        if ok:
            for k, (s, e) in enumerate(segs):
                weak, strong = criteria(h, p, s, e, edge, None)
                f = int(flags[k])
                if strong:
                    ok = ok and f == 1
                elif not weak:
                    ok = ok and f == 0
                else:
                    ok = ok and f in (0, 1)
        h.check(ok, 'container-flag-matches-criteria', ([int(f) for f in flags], segs))
