"""C05 - extrema are exact and envelopes interpolate them on the sample grid."""
import numpy as np

import emd
from emd import sift as S

from checks import common

PROPERTY = 'C05'
FUNCTIONS = ['emd.sift._find_extrema', 'emd.sift.compute_parabolic_extrema', 'emd.sift.get_padded_extrema',
             'emd.sift.interp_envelope(ret_extrema=True)']
BOUNDS = {
    'quick': 'N <= 6 unbounded symbolic real samples with ties (extrema clause; subsumes every 3-level sequence up to that length), '
             'N = 6 for padding (pad widths 0..5, peaks/troughs/abs_peaks; user-supplied magnitude padding mode mean) and for envelopes (pad widths 1..3, {splrep, pchip, mono_pchip} x '
             '{upper, lower, combined}; also symbolic integer-dtype input (8-bit model) for splrep/upper and pchip/lower); parabolic refinement: N <= 5 (extrema formula) and N = 5 (envelope grid)',
    'thorough': 'N <= 9 (extrema), N <= 7 (padding, envelopes, pad widths 1..5) and N = 8 for pad width 2 (splrep), parabolic N <= 7 (formula) / 6 (envelope)',
}
OUTSIDE = 'longer signals; float rounding inside FITPACK/pchip; interp_envelope with pad_width=0 (unpadded interior extrema can never ' \
          'cover samples 0..N-1, the routine raises for every signal - not asserted); custom location-padding options (C06 checks that they arrive)'
ASSUMPTIONS = ['splrep/splev(k=3,s=0) = exact rational not-a-knot cubic spline (validated against FITPACK on every knot set)',
               'pchip / symbolic-knot splines are uninterpreted interpolants: only evaluation abscissae and knot values are compared']
REQUIRED_CLASSES = ['extrema:two-peaks', 'extrema:tie-plateau', 'extrema:narrow-integer-input', 'pad:repadded', 'pad:custom-magnitude-mode', 'env:returned', 'env:none', 'parab:refined']
EXPECTED_LABELS = ['extrema-exact', 'troughs-exact', 'abs-peaks-exact', 'parabolic-vertex', 'padding-rule', 'padding-never-raises',
                   'envelope-length', 'envelope-on-integer-grid', 'envelope-through-extrema', 'envelope-never-raises']
BUDGET_S = {'quick': 170, 'thorough': 900}
OPTS = {'quick': {'sample_every': 11}, 'thorough': {'sample_every': 11}}


def configs(tier):
    out = []
    q = tier == 'quick'
    for n in ((3, 4, 5, 6) if q else (3, 5, 7, 8)):
        out.append(('extrema-N%d' % n, {'kind': 'extrema', 'N': n}))
    # narrow integer recordings (int8 stands for int16 ADC counts): extrema come from comparisons, never from wrapped differences
    for n in ((5,) if q else (5, 6)):
        out.append(('extrema-N%d-int8' % n, {'kind': 'extrema', 'N': n, 'int_bits': 8}))
    for n in ((4, 5) if q else (4, 5, 6)):
        out.append(('parabolic-N%d' % n, {'kind': 'parab', 'N': n}))
    for w in ((0, 1, 2, 3, 5) if q else (0, 1, 2, 3, 4, 5)):
        for mode in ('peaks', 'troughs', 'abs_peaks'):
            if q and mode == 'abs_peaks' and w not in (2,):
                continue
            out.append(('pad-N%d-w%d-%s' % (6 if q else 7, w, mode), {'kind': 'pad', 'N': 6 if q else 7, 'w': w, 'mode': mode}))
    # user-supplied magnitude padding: np.pad's own meaning of the option, nothing inherited from the default (median, stat_length 1)
    for mp in (('mean',) if q else ('mean', 'maximum')):
        for w in ((2,) if q else (1, 2, 3)):
            out.append(('pad-N%d-w%d-peaks-mag-%s' % (6 if q else 7, w, mp), {'kind': 'pad', 'N': 6 if q else 7, 'w': w, 'mode': 'peaks', 'magpad': mp}))
    for method in ('splrep', 'pchip', 'mono_pchip'):
        for mode in ('upper', 'lower', 'combined'):
            for w in ((1, 2, 3) if q else (1, 2, 3, 4, 5)):
                if q and (method != 'splrep' or mode == 'combined') and w != 2:
                    continue
                if not q and method != 'splrep' and w in (4, 5):
                    continue
                n = 6 if q else 7
                out.append(('env-N%d-%s-%s-w%d' % (n, method, mode, w),
                            {'kind': 'env', 'N': n, 'method': method, 'mode': mode, 'w': w, 'parab': False}))
    for method in (('splrep',) if q else ('splrep', 'pchip')):
        for mode in ('upper', 'lower'):
            out.append(('env-N5-%s-%s-w2-parabolic' % (method, mode),
                        {'kind': 'env', 'N': 5, 'method': method, 'mode': mode, 'w': 2, 'parab': True}))
    # integer recordings handed straight to the envelope routine: the envelope is a real-valued interpolant whatever the input dtype
    for method, mode in ((('splrep', 'upper'), ('pchip', 'lower')) if q else (('splrep', 'upper'), ('splrep', 'combined'), ('pchip', 'lower'), ('mono_pchip', 'upper'))):
        out.append(('env-N6-%s-%s-w2-int8' % (method, mode), {'kind': 'env', 'N': 6, 'method': method, 'mode': mode, 'w': 2, 'parab': False, 'int_bits': 8}))
    if not q:
        # deeper bounds, last so that the tier budget only ever trims these
        out.append(('extrema-N9', {'kind': 'extrema', 'N': 9}))
        for mode in ('peaks', 'troughs'):
            out.append(('pad-N8-w2-%s' % mode, {'kind': 'pad', 'N': 8, 'w': 2, 'mode': mode}))
        for mode in ('upper', 'lower'):
            out.append(('env-N8-splrep-%s-w2' % mode, {'kind': 'env', 'N': 8, 'method': 'splrep', 'mode': mode, 'w': 2, 'parab': False}))
        out.append(('parabolic-N7', {'kind': 'parab', 'N': 7}))
        out.append(('env-N6-splrep-upper-w2-parabolic', {'kind': 'env', 'N': 6, 'method': 'splrep', 'mode': 'upper', 'w': 2, 'parab': True}))
    return out


def strict_maxima(x, N):
    return [i for i in range(1, N - 1) if bool(x[i] > x[i - 1]) and bool(x[i] > x[i + 1])]


def interpolant(method, locs, pks, t):
    I = common.interp_lib()     # the exact models in symbolic runs, real scipy in replays
    if method == 'splrep':
        return I.splev(t, I.splrep(locs, pks))
    if method == 'mono_pchip':
        return I.PchipInterpolator(locs, pks)(t)
    return I.pchip(locs, pks)(t)


def harness(h):
    kind, N = h.params['kind'], h.params['N']
    if h.params.get('int_bits'):
        x = h.int_array('x', N, -127, 127, bits=h.params['int_bits'])
        h.note('extrema:narrow-integer-input')
    else:
        x = h.reals('x', N)
    if kind == 'extrema':
        pk = strict_maxima(x, N)
        tr = strict_maxima(-x, N)
        ap = strict_maxima(abs(x), N)
        if len(pk) >= 2:
            h.note('extrema:two-peaks')
        if any(bool(x[i] == x[i + 1]) for i in range(N - 1)):
            h.note('extrema:tie-plateau')
        locs, mags = S._find_extrema(x)
        h.observe('peak_locs', np.asarray(locs))
        h.check_eq(np.asarray(locs), np.array(pk), 'extrema-exact', 'locations')
        h.check_eq(np.asarray(mags), np.array([x[i] for i in pk], dtype=object), 'extrema-exact', 'magnitudes')
        for mode, ref, lab in (('peaks', pk, 'extrema-exact'), ('troughs', tr, 'troughs-exact'), ('abs_peaks', ap, 'abs-peaks-exact')):
            l2, m2 = S.get_padded_extrema(x, pad_width=0, mode=mode)
            if len(ref) < 2:
                h.check(l2 is None and m2 is None, lab, 'fewer than two extrema must give (None, None)')
            else:
                src = abs(x) if mode == 'abs_peaks' else x
                h.check_eq(np.asarray(l2), np.array(ref), lab, mode + ' locations')
                h.check_eq(np.asarray(m2), np.array([src[i] for i in ref], dtype=object), lab, mode + ' magnitudes')
    elif kind == 'parab':
        pk = strict_maxima(x, N)
        if not pk:
            return
        h.note('parab:refined')
        locs, mags = S._find_extrema(x, parabolic_extrema=True)
        wl, wm = [], []
        for i in pk:
            y0, y1, y2 = x[i - 1], x[i], x[i + 1]
            den = y0 - 2 * y1 + y2
            wl.append(i + (y0 - y2) / (2 * den))
            wm.append(y1 - (y0 - y2) * (y0 - y2) / (8 * den))
        h.observe('parab_locs', np.asarray(locs))
        h.check_eq(np.asarray(locs), np.array(wl, dtype=object), 'parabolic-vertex', 'locations')
        h.check_eq(np.asarray(mags), np.array(wm, dtype=object), 'parabolic-vertex', 'magnitudes')
    elif kind == 'pad':
        w, mode = h.params['w'], h.params['mode']
        src = -x if mode == 'troughs' else (abs(x) if mode == 'abs_peaks' else x)
        ref = strict_maxima(src, N)
        try:
            magpad = h.params.get('magpad')
            if magpad:
                mpo = {'mean': {'mode': 'mean'}, 'maximum': {'mode': 'maximum'}, 'mean-stat2': {'mode': 'mean', 'stat_length': 2}}[magpad]
                locs, mags = S.get_padded_extrema(x, pad_width=w, mode=mode, mag_pad_opts=dict(mpo))
                h.note('pad:custom-magnitude-mode')
            else:
                locs, mags = S.get_padded_extrema(x, pad_width=w, mode=mode)
        except Exception as e:
            h.fail('padding-never-raises', '%s: %s' % (type(e).__name__, e))
            return
        h.check(True, 'padding-never-raises')
        if len(ref) < 2:
            h.check(locs is None and mags is None, 'padding-rule', 'fewer than two extrema must give (None, None)')
            return
        vals = [(x[i] if mode != 'abs_peaks' else abs(x[i])) for i in ref]
        locs = [int(v) for v in locs]
        mags = list(mags)
        n = len(ref)
        ok = True
        why = None
        if w == 0:
            ok = locs == ref
            h.check(ok, 'padding-rule', (locs, ref))
            h.check_eq(np.array(mags, dtype=object), np.array(vals, dtype=object), 'padding-rule', 'w=0 magnitudes')
            return
        # strictly increasing
        if not all(a < b for a, b in zip(locs[:-1], locs[1:])):
            ok, why = False, 'not strictly increasing'
        # interior block unchanged, extra entries only beyond both ends
        extra = len(locs) - n
        if extra <= 0 or extra % 2:
            ok, why = False, 'no symmetric padding'
        k = extra // 2
        if ok and locs[k:k + n] != ref:
            ok, why = False, 'interior altered'
        if ok and not (locs[k - 1] < ref[0] and locs[k + n] > ref[-1]):
            ok, why = False, 'padding inside'
        # coverage of both edges
        if ok and not (locs[0] < 0 and locs[-1] >= N):
            ok, why = False, 'edges not covered'
        if k > min(w, n):
            h.note('pad:repadded')
        # mirrored (odd reflection about the outermost extremum of each padding round)
        if ok:
            cur = list(ref)
            ww = min(w, n)
            first = True
            while first or not (max(cur) >= N and min(cur) < 0):
                first = False
                left = right = ww
                while left > 0 or right > 0:       # odd reflection about the outermost entries, at most len-1 per pass
                    m = len(cur)
                    nl, nr = min(left, m - 1), min(right, m - 1)
                    newl = [2 * cur[0] - cur[j] for j in range(nl, 0, -1)]
                    newr = [2 * cur[-1] - cur[-1 - j] for j in range(1, nr + 1)]
                    cur = newl + cur + newr
                    left -= nl
                    right -= nr
            if cur != locs:
                ok, why = False, 'not the mirrored locations %s' % cur
        h.check(ok, 'padding-rule', (why, locs, ref))
        if ok:
            left, right = vals[0], vals[-1]
            if magpad == 'mean':
                left = right = sum(vals[1:], vals[0]) / len(vals)
            elif magpad == 'maximum':
                m = vals[0]
                for v in vals[1:]:
                    if bool(v > m):
                        m = v
                left = right = m
            elif magpad == 'mean-stat2':
                left, right = (vals[0] + vals[1]) / 2, (vals[-1] + vals[-2]) / 2
            want = [left] * k + vals + [right] * k
            h.check_eq(np.array(mags, dtype=object), np.array(want, dtype=object), 'padding-rule', 'magnitudes (%s)' % (magpad or 'edge median'))
    else:
        method, mode, w, parab = h.params['method'], h.params['mode'], h.params['w'], h.params['parab']
        src = -x if mode == 'lower' else (abs(x) if mode == 'combined' else x)
        ref = strict_maxima(src, N)
        eo = {'pad_width': w, 'parabolic_extrema': parab, 'loc_pad_opts': None, 'mag_pad_opts': None}
        try:
            r = S.interp_envelope(x, mode=mode, interp_method=method, extrema_opts=eo, ret_extrema=True)
        except Exception as e:
            h.fail('envelope-never-raises', '%s: %s' % (type(e).__name__, e))
            return
        h.check(True, 'envelope-never-raises')
        if len(ref) < 2:
            h.note('env:none')
            h.check(r is None, 'envelope-length', 'fewer than two extrema must give None')
            return
        if r is None:
            h.fail('envelope-length', 'None although %d extrema exist' % len(ref))
            return
        h.note('env:returned')
        env, (locs, pks) = r
        env = np.asarray(env)
        h.check(env.shape == (N,), 'envelope-length', env.shape)
        if env.shape != (N,):
            return
        if method == 'splrep' and not parab:
            h.observe('env', env)
        want = interpolant(method, locs, pks, np.arange(N))
        h.check_eq(env, np.asarray(want), 'envelope-on-integer-grid', (method, mode, w, parab))
        if not parab:
            vals = [(x[i] if mode != 'combined' else abs(x[i])) for i in ref]
            h.check_eq(np.array([env[i] for i in ref], dtype=object), np.array(vals, dtype=object), 'envelope-through-extrema', ref)
        else:
            h.check(True, 'envelope-through-extrema')
