"""C01 - the classic sift is a complete additive decomposition of its input."""
import numpy as np

import emd
from emd import sift as S
from emd.support import EMDSiftCovergeError

from checks import common

PROPERTY = 'C01'
FUNCTIONS = ['emd.sift.sift', 'emd.sift.get_next_imf', 'emd.sift.interp_envelope', 'emd.sift.get_padded_extrema',
             'emd.sift._find_extrema', 'emd.sift.sd_stop', 'emd.sift.fixed_stop', 'emd.logger.wrap_verbose / sift_logger',
             'emd.support.ensure_1d_with_singleton']
BOUNDS = {
    'quick': 'N in 3..6 unbounded symbolic real samples (ties allowed); stop in {fixed(1), fixed(2), sd(symbolic threshold in (0,1), '
             'max_iters 2), rilling(default thresholds, formula model, max_iters 2)}; step in {1, 1/2, 1/3}; interpolation in {splrep exact, pchip, '
             'mono_pchip uninterpreted}; pad width in {1,2,3}; 10 configurations of that grid; no IMF cap, no energy threshold',
    'thorough': 'N <= 7 (fixed stop), N = 6: 18 combinations of stop {fixed1, fixed2, rilling} x (step, interpolation, pad width) and two sd configurations',
}
OUTSIDE = 'longer signals, more than 3 sifting iterations per IMF, float rounding (sums compared exactly over the reals), ' \
          'non-default loc/mag pad options (C06)'
ASSUMPTIONS = ['rilling_stop replaced by its documented formula in the rilling configurations (compositional cut; the real '
               'function is proved equivalent to the formula in the C04 unit clause); replays use the real function',
               'sd stop: the threshold is a symbolic real in (0,1); nonlinear queries may end unknown (counted inconclusive)']
REQUIRED_CLASSES = ['two-or-more-imfs', 'extrema-vanish-after-iteration', 'residual-only', 'ended-of-own-accord', 'integer-input', 'generous-cap-not-reached']
EXPECTED_LABELS = ['never-raises', 'additive', 'residual-non-oscillatory', 'shape']
BUDGET_S = {'quick': 170, 'thorough': 900}
OPTS = {'quick': {'sample_every': 9}, 'thorough': {'sample_every': 9, 'timeout_ms': 20000}}

SIFT_THRESH = 1e-8


def configs(tier):
    def cfg(n, stop, step, interp, w):
        return ('N%d-%s-step%s-%s-w%d' % (n, stop, step, interp, w),
                {'N': n, 'stop': stop, 'step': step, 'interp': interp, 'w': w})
    out = []
    if tier == 'quick':
        for n in (3, 4, 5):
            out.append(cfg(n, 'fixed1', '1', 'splrep', 2))
        out += [cfg(6, 'fixed1', '1', 'splrep', 2), cfg(6, 'fixed2', '1/2', 'splrep', 1), cfg(6, 'fixed2', '1', 'splrep', 3),
                cfg(6, 'fixed1', '1/3', 'pchip', 2), cfg(6, 'fixed2', '1', 'mono_pchip', 2),
                cfg(6, 'rilling', '1/2', 'splrep', 2)]
        sd = cfg(6, 'sd', '1', 'splrep', 2)
        sd[1]['_budget_s'] = 45
        out.append(sd)
        # integer-dtype recording (raw counts): residuals and components are real valued whatever the input dtype
        ii = cfg(6, 'fixed1', '1', 'splrep', 2)
        out.append((ii[0] + '-int-input', dict(ii[1], int_input=True)))
        # a generous cap that is never reached must not cut anything short
        gc = cfg(6, 'fixed1', '1', 'splrep', 2)
        out.append((gc[0] + '-cap5', dict(gc[1], cap=5)))
    else:
        out.append(cfg(7, 'fixed1', '1', 'splrep', 2))
        out.append(cfg(7, 'fixed2', '1/2', 'splrep', 2))
        for stop in ('fixed1', 'fixed2', 'rilling'):
            for step, interp, w in (('1', 'splrep', 2), ('1/2', 'splrep', 1), ('1/3', 'splrep', 3), ('1', 'pchip', 2), ('1/2', 'mono_pchip', 3),
                                    ('1/3', 'pchip', 1)):
                out.append(cfg(6, stop, step, interp, w))
        for n, stop in ((6, 'fixed1'), (6, 'fixed2'), (7, 'fixed1')):
            ii = cfg(n, stop, '1', 'splrep', 2)
            out.append((ii[0] + '-int-input', dict(ii[1], int_input=True)))
        for n, stop, cap in ((6, 'fixed1', 5), (6, 'fixed2', 8), (7, 'fixed1', 6), (6, 'rilling', 5)):
            gc = cfg(n, stop, '1', 'splrep', 2)
            out.append((gc[0] + '-cap%d' % cap, dict(gc[1], cap=cap)))
        for step, w in (('1', 2), ('1/2', 1)):
            c = cfg(6, 'sd', step, 'splrep', w)
            c[1]['_budget_s'] = 150
            out.append(c)
    return out


def harness(h):
    N = h.params['N']
    if h.params.get('int_input'):
        X = h.int_array('x', N, -8, 8)
        h.note('integer-input')
    else:
        X = h.reals('x', N)
    imf_opts, env_opts, ext_opts = common.sift_options(h, h.params)
    with common.rilling_model(h, enabled=h.params['stop'] == 'rilling'), common.trace_sift(max_gni=8) as tr:
        try:
            cap = h.params.get('cap')
            extra = {} if cap is None else {'max_imfs': cap}
            imf = S.sift(X, imf_opts=imf_opts, envelope_opts=env_opts, extrema_opts=ext_opts, **extra)
        except EMDSiftCovergeError:
            h.note('convergence-error')
            return
        except Exception as e:
            h.fail('never-raises', '%s: %s' % (type(e).__name__, e))
            return
    h.check(True, 'never-raises')
    imf = np.asarray(imf)
    h.check(imf.ndim == 2 and imf.shape[0] == N and imf.shape[1] >= 1, 'shape', imf.shape)
    if not (imf.ndim == 2 and imf.shape[0] == N and imf.shape[1] >= 1):
        return
    h.observe('imf', imf)
    K = imf.shape[1]
    if cap is not None:
        if K >= cap:
            h.note('cut-short-by-cap')
            return
        h.note('generous-cap-not-reached')
    h.note('two-or-more-imfs' if K >= 2 else 'residual-only')
    last = imf[:, -1]
    if bool(common.abs_sum(last) < SIFT_THRESH):
        h.note('cut-short-by-sift-threshold')
        return
    h.note('ended-of-own-accord')
    if tr.vanished_after_iteration():
        h.note('extrema-vanish-after-iteration')
    h.check_eq(common.colsum(imf), X, 'additive', K)
    npk = len(common.strict_maxima(last, N))
    ntr = len(common.strict_maxima(-last, N))
    h.check(npk < 2 or ntr < 2, 'residual-non-oscillatory', (npk, ntr))
