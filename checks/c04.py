"""C04 - single-IMF extraction obeys its stopping rule and always terminates."""
import math

import numpy as np

import emd
from emd import sift as S
from emd.support import EMDSiftCovergeError

from checks import common

PROPERTY = 'C04'
FUNCTIONS = ['emd.sift.get_next_imf', 'emd.sift.interp_envelope', 'emd.sift.get_padded_extrema', 'emd.sift._find_extrema',
             'emd.sift.sd_stop', 'emd.sift.rilling_stop', 'emd.sift.fixed_stop', 'emd.sift._energy_difference',
             'emd.support.EMDSiftCovergeError']
BOUNDS = {
    'quick': 'get_next_imf on N = 6 unbounded symbolic reals vs an executable specification of the iterate sequence: stop in {fixed with '
             'symbolic count 1..2, sd with symbolic threshold (limit 1..2), rilling with default and non-default (0.1, 0.6, 0.3) thresholds (limits 1..2)}, step in {1, 1/2, symbolic in (0,1] '
             '(fixed stop)}, splrep exact / pchip, pad width 2 (and 1); unit clauses: sd_stop on arrays <= 3, rilling_stop on envelope arrays '
             '<= 4 with default and symbolic thresholds (<= 3), fixed_stop for symbolic counts; energy clause with log10 uninterpreted',
    'thorough': 'N <= 7 (fixed), limits 1..3, rilling_stop unit up to length 6 (the length at which C01/C02/C03 use the formula cut)',
}
OUTSIDE = 'iteration limits above 3 (documented range is 1..1000), signals longer than 7, float rounding of the stop metrics (a stop ' \
          'decision within rounding distance of its threshold), parabolic extrema'
ASSUMPTIONS = ['the specification computes envelopes with its own strict-extrema predicate and its own reflect/edge padding, and shares only '
               'the interpolant (exact rational spline / uninterpreted pchip) with the implementation',
               "too-few-extrema exit after >= 1 iteration: the iterate is returned with the continue flag set (needed for C01's additivity)",
               'iteration limit: the convergence error is accepted after max_iters or max_iters+1 completed iterations without the rule firing']
REQUIRED_CLASSES = ['returned-by-rule', 'returned-input-as-residual', 'returned-iterate-without-extrema', 'convergence-error',
                    'unit:sd', 'unit:rilling-stop-true', 'unit:rilling-stop-false', 'unit:rilling-zero-amplitude', 'energy:flag-cleared']
EXPECTED_LABELS = ['outcome-matches-spec', 'imf-equals-spec-iterate', 'flag-matches-spec', 'terminates', 'unit-sd-stop',
                   'unit-rilling-stop', 'unit-fixed-stop', 'energy-flag']
BUDGET_S = {'quick': 170, 'thorough': 900}
OPTS = {'quick': {'sample_every': 9, 'path_wall_s': 25}, 'thorough': {'sample_every': 9, 'timeout_ms': 20000}}


def configs(tier):
    q = tier == 'quick'
    out = []

    def cfg(n, stop, step, interp, w, lim, **kw):
        d = {'kind': 'gni', 'N': n, 'stop': stop, 'step': step, 'interp': interp, 'w': w, 'limit': lim}
        d.update(kw)
        return ('gni-N%d-%s-step%s-%s-w%d-lim%s%s' % (n, stop, step, interp, w, lim, '-thr%s' % (kw['rthr'],) if 'rthr' in kw else ''), d)
    if q:
        out += [cfg(5, 'fixed', '1', 'splrep', 2, 'sym2'), cfg(6, 'fixed', '1', 'splrep', 2, 'sym2'),
                cfg(6, 'fixed', 'sym', 'splrep', 1, 2), cfg(6, 'fixed', '1/2', 'pchip', 2, 2),
                cfg(6, 'rilling', '1', 'splrep', 2, 1), cfg(6, 'rilling', '1/2', 'splrep', 2, 2, rthr=(0.1, 0.6, 0.3)),
                cfg(6, 'sd', '1/2', 'splrep', 2, 'sym2', _budget_s=45)]
        out += [('unit-sd-3', {'kind': 'unit-sd', 'n': 3}), ('unit-fixed', {'kind': 'unit-fixed'}),
                ('unit-rilling-4', {'kind': 'unit-rilling', 'n': 4, 'sym': False}),
                ('unit-rilling-3-symthresh', {'kind': 'unit-rilling', 'n': 3, 'sym': True}),
                ('energy-N6', {'kind': 'energy', 'N': 6})]
    else:
        out += [cfg(6, 'fixed', '1', 'splrep', 2, 'sym3'), cfg(7, 'fixed', '1', 'splrep', 2, 2),
                cfg(6, 'fixed', 'sym', 'splrep', 1, 2), cfg(6, 'fixed', 'sym', 'splrep', 3, 3),
                cfg(6, 'fixed', '1/2', 'pchip', 2, 3), cfg(6, 'fixed', '1', 'mono_pchip', 1, 2),
                cfg(6, 'rilling', '1', 'splrep', 2, 2), cfg(6, 'rilling', '1/2', 'splrep', 1, 'sym2'), cfg(6, 'rilling', '1', 'splrep', 2, 2, rthr=(0.1, 0.6, 0.3)),
                cfg(6, 'sd', '1/2', 'splrep', 2, 'sym2'), cfg(6, 'sd', '1', 'splrep', 2, 3)]
        out += [('unit-sd-4', {'kind': 'unit-sd', 'n': 4}), ('unit-fixed', {'kind': 'unit-fixed'}),
                ('unit-rilling-5', {'kind': 'unit-rilling', 'n': 5, 'sym': False}),
                ('unit-rilling-6', {'kind': 'unit-rilling', 'n': 6, 'sym': False}),
                ('unit-rilling-4-symthresh', {'kind': 'unit-rilling', 'n': 4, 'sym': True}),
                ('energy-N6', {'kind': 'energy', 'N': 6})]
    return out


# ---------------------------------------------------------------------------------------------- executable specification

def reflect_odd(cur, w):
    left = right = w
    while left > 0 or right > 0:
        m = len(cur)
        nl, nr = min(left, m - 1), min(right, m - 1)
        cur = [2 * cur[0] - cur[j] for j in range(nl, 0, -1)] + cur + [2 * cur[-1] - cur[-1 - j] for j in range(1, nr + 1)]
        left -= nl
        right -= nr
    return cur


def spec_envelope(p, N, upper, interp, w):
    src = p if upper else -p
    ext = common.strict_maxima(src, N)
    if len(ext) < 2:
        return None
    vals = [p[i] for i in ext]
    ww = min(w, len(ext))
    locs = reflect_odd(list(ext), ww)
    k = (len(locs) - len(ext)) // 2
    mags = [vals[0]] * k + vals + [vals[-1]] * k
    while not (max(locs) >= N and min(locs) < 0):
        locs = reflect_odd(locs, ww)
        mags = [mags[0]] * ww + mags + [mags[-1]] * ww
    locs = np.array(locs)
    mags = np.array(mags, dtype=object if any(isinstance(v, common.SymReal) for v in mags) else float)
    t = np.arange(N)
    I = common.interp_lib()
    if interp == 'splrep':
        return np.asarray(I.splev(t, I.splrep(locs, mags)))
    if interp == 'mono_pchip':
        return np.asarray(I.PchipInterpolator(locs, mags)(t))
    return np.asarray(I.pchip(locs, mags)(t))


def spec_stop(h, stop, p, x1, up, lo, n, max_iters, thr):
    if stop == 'fixed':
        return bool(n == max_iters)
    if stop == 'sd':
        num = sum(((p[i] - x1[i]) ** 2 for i in range(1, len(p))), (p[0] - x1[0]) ** 2)
        den = sum((p[i] ** 2 for i in range(1, len(p))), p[0] ** 2)
        return bool(num / den < thr)
    sd1, sd2, tol = thr
    if h.symbolic:
        return bool(common.rilling_formula(up, lo, sd1, sd2, tol)[0])
    return bool(S.rilling_stop(up, lo, sd1=sd1, sd2=sd2, tol=tol)[0])


def harness(h):
    kind = h.params['kind']
    if kind == 'gni':
        return gni(h)
    if kind == 'unit-sd':
        n = h.params['n']
        a = h.reals('a', n)
        b = h.reals('b', n)
        sd = h.real('sd', lo=0, hi=1, lo_open=True)
        h.assume(sum((a[i] * a[i] for i in range(1, n)), a[0] * a[0]) > 0)
        h.note('unit:sd')
        stop, metric = S.sd_stop(a, b, sd=sd)
        want = sum(((a[i] - b[i]) ** 2 for i in range(1, n)), (a[0] - b[0]) ** 2) / sum((a[i] ** 2 for i in range(1, n)), a[0] ** 2)
        h.check_eq(metric, want, 'unit-sd-stop', 'metric')
        h.check(bool(stop) == bool(want < sd), 'unit-sd-stop', 'decision')
    elif kind == 'unit-fixed':
        n = h.int('niters', 0, 5)
        m = h.int('max_iters', 1, 5)
        st = S.fixed_stop(n, m)
        h.check(bool(st) == bool(n == m), 'unit-fixed-stop')
    elif kind == 'unit-rilling':
        n = h.params['n']
        up = h.reals('u', n)
        lo = h.reals('l', n)
        if h.params['sym']:
            sd1 = h.real('sd1', lo=0, hi=1, lo_open=True, hi_open=True)
            sd2 = h.real('sd2', lo=0, hi=1, lo_open=True, hi_open=True)
            tol = h.real('tol', lo=0, hi=1, lo_open=True, hi_open=True)
        else:
            sd1, sd2, tol = 0.05, 0.5, 0.05
        stop, metric = S.rilling_stop(up, lo, sd1=sd1, sd2=sd2, tol=tol)
        stop = bool(stop)
        # documented rule, written independently with IEEE semantics for a vanishing amplitude
        cnt = 0
        big = False
        zero_amp = False
        for i in range(n):
            avg = (up[i] + lo[i]) / 2
            amp = abs(up[i] - lo[i]) / 2
            if bool(amp == 0):
                zero_amp = True
                e1 = e2 = bool(avg != 0)
            else:
                e1 = bool(abs(avg) > sd1 * amp)
                e2 = bool(abs(avg) > sd2 * amp)
            cnt += 1 if e1 else 0
            big = big or e2
        want = (not bool(lift_div(cnt, n) > tol)) and not big
        h.note('unit:rilling-stop-true' if want else 'unit:rilling-stop-false')
        if zero_amp:
            h.note('unit:rilling-zero-amplitude')
        h.check(stop == want, 'unit-rilling-stop', (stop, want, cnt, big))
        if h.symbolic:
            f, _ = common.rilling_formula(up, lo, sd1, sd2, tol)
            h.check(bool(f) == want, 'unit-rilling-stop', 'formula used as compositional cut differs from the rule')
    else:
        energy(h)


def lift_div(a, b):
    return a / b


def run_spec(h, X, N, stop, step, interp, w, max_iters, thr, hard_limit):
    """returns list of per-iteration events and the first returning outcome (kind, value, flag, n) or None"""
    p = X
    n = 0
    while n < hard_limit:
        n += 1
        up = spec_envelope(p, N, True, interp, w)
        lo = spec_envelope(p, N, False, interp, w)
        if up is None or lo is None:
            if n == 1:
                return ('residual', X, False, n)
            return ('no-extrema', p, True, n)
        m = (up + lo) / 2
        x1 = p - m
        if spec_stop(h, stop, p, x1, up, lo, n, max_iters, thr):
            return ('rule', x1, True, n)
        p = p - m * step
    return None


def get_opts(h):
    stop, lim = h.params['stop'], h.params['limit']
    if isinstance(lim, str):
        max_iters = h.int('max_iters', 1, int(lim[3:]))
    else:
        max_iters = lim
    step = h.params['step']
    if step == 'sym':
        step = h.real('step', lo=0, hi=1, lo_open=True)
    else:
        step = common.STEPS[step]
    thr = None
    imf_opts = {'stop_method': stop, 'max_iters': max_iters, 'env_step_size': step}
    if stop == 'sd':
        thr = h.real('sd_thresh', lo=0, hi=1, lo_open=True, hi_open=True)
        imf_opts['sd_thresh'] = thr
    elif stop == 'rilling':
        thr = h.params.get('rthr', (0.05, 0.5, 0.05))
        imf_opts['rilling_thresh'] = thr
    return imf_opts, max_iters, step, thr


def gni(h):
    N, stop, interp, w = h.params['N'], h.params['stop'], h.params['interp'], h.params['w']
    X = h.reals('x', N)
    imf_opts, max_iters, step, thr = get_opts(h)
    env_opts = {'interp_method': interp}
    ext_opts = {'pad_width': w}
    mi = int(max_iters) if not h.symbolic else None
    outcome = None
    with common.rilling_model(h, enabled=stop == 'rilling'), common.trace_sift(max_gni=2, max_env=2 * (3 + 2) + 4) as tr:
        try:
            imf, flag = S.get_next_imf(X, envelope_opts=env_opts, extrema_opts=ext_opts, **imf_opts)
            outcome = ('returned', imf, flag)
        except EMDSiftCovergeError:
            outcome = ('convergence-error',)
        except common.PathAbort as e:
            if e.kind == 'bound':
                h.fail('terminates', 'more envelope evaluations than any admissible run: %s' % e.reason)
                return
            raise
        except Exception as e:
            h.fail('outcome-matches-spec', 'unexpected %s: %s' % (type(e).__name__, e))
            return
    h.check(True, 'terminates')
    max_iters_c = int(max_iters)      # concretises a symbolic limit (fork) - after the call, so the call saw it symbolic
    hard = max_iters_c if stop == 'fixed' else max_iters_c + 1
    spec = run_spec(h, X, N, stop, step, interp, w, max_iters_c, thr, hard)
    if outcome[0] == 'convergence-error':
        h.note('convergence-error')
        # admissible only for non-fixed rules when the rule did not fire within max_iters iterations
        ok = stop != 'fixed' and (spec is None or spec[3] > max_iters_c)
        h.check(ok, 'outcome-matches-spec', ('raised although spec returns', None if spec is None else spec[0::3]))
        return
    imf, flag = outcome[1], outcome[2]
    imf = np.asarray(imf)
    if spec is None:
        h.fail('outcome-matches-spec', 'returned although the rule never fired within the limit (unconverged iterate returned)')
        return
    h.check(True, 'outcome-matches-spec')
    kind_, val, sflag, n = spec
    h.note({'rule': 'returned-by-rule', 'residual': 'returned-input-as-residual', 'no-extrema': 'returned-iterate-without-extrema'}[kind_])
    if interp == 'splrep':
        h.observe('imf', imf)
    h.check(imf.shape == (N, 1), 'imf-equals-spec-iterate', imf.shape)
    if imf.shape == (N, 1):
        h.check_eq(imf[:, 0], np.asarray(val), 'imf-equals-spec-iterate', (kind_, n))
    h.check(bool(flag) == sflag, 'flag-matches-spec', (kind_, n, bool(flag)))


def energy(h):
    N = h.params['N']
    X = h.reals('x', N)
    thr = h.real('energy_thresh', lo=1, hi=100)
    imf_opts = {'stop_method': 'fixed', 'max_iters': 1, 'energy_thresh': thr}
    try:
        imf, flag = S.get_next_imf(X, **imf_opts)
        imf0, flag0 = S.get_next_imf(X, stop_method='fixed', max_iters=1)
    except Exception as e:
        h.fail('energy-flag', 'unexpected %s: %s' % (type(e).__name__, e))
        return
    h.check_eq(np.asarray(imf), np.asarray(imf0), 'energy-flag', 'the energy threshold must not change the IMF')
    imf = np.asarray(imf)[:, 0]
    ssq = sum((X[i] ** 2 for i in range(1, N)), X[0] ** 2)
    res = [X[i] - imf[i] for i in range(N)]
    rsq = sum((res[i] ** 2 for i in range(1, N)), res[0] ** 2)
    if not (bool(ssq > 0) and bool(rsq > 0)):
        return      # log of zero: outside the clause
    if h.symbolic:
        db = common.lift(ssq).log10() * 20 - common.lift(rsq).log10() * 20
    else:
        db = 20 * math.log10(ssq) - 20 * math.log10(rsq)
    fired = bool(db > thr)
    want = bool(flag0) and not fired
    if bool(flag0) and fired:
        h.note('energy:flag-cleared')
    h.check(bool(flag) == want, 'energy-flag', (bool(flag0), fired, bool(flag)))
