"""C07 - the masked sift applies the documented masks, removes them, and is schedule independent."""
import math

import numpy as np

import emd
from emd import sift as S
from emd.support import EMDSiftCovergeError

from checks import common

PROPERTY = 'C07'
FUNCTIONS = ['emd.sift.get_next_imf_mask', 'emd.sift.mask_sift', 'emd.sift.get_mask_freqs', 'emd.sift.zero_crossing_count',
             'emd.sift.get_next_imf (shared with the specification; its own semantics are C04)']
BOUNDS = {
    'quick': 'N = 6 symbolic samples in [-8,8] (N = 7 for one ratio_imf configuration: on 6 samples the amplitude of the second mask can never matter); get_next_imf_mask vs the masking rule for mask frequencies {0.3, 0.125}, symbolic amplitude in (0,4] '
             '(1 phase) and amplitude 0.5 (2 phases; 3 phases on 2 workers, time-boxed), 1..2 worker processes, default and non-default envelope/extrema options (pchip at N = 6, pad_width 1 at N = 7: on 6 samples the pad width never matters); mask_sift: frequency ladder z/step^i for step factors {2,3}, user lists, '
             'zero-crossing source, amplitude modes {abs, ratio_sig, ratio_imf} with scalar and per-IMF amplitudes, returned frequencies; zero amplitude',
    'thorough': '3 and 4 phases, more frequencies, 3 IMFs, amplitude arrays in every mode',
}
OUTSIDE = "instantaneous-frequency ('if') mask source (needs the Hilbert transform: not encodable); OS-level interleavings (decided under the " \
          'order-preserving starmap contract, exercised by replays with real pools); the mask cosines are compared to 1e-9 (the implementation ' \
          'evaluates them in doubles)'
ASSUMPTIONS = ['Pool.starmap order preserving; jobs touch no worker-local state (any RNG draw during a masked extraction is reported)',
               'std() for the ratio amplitude modes: abstract positive square root, identical arguments share one root']
REQUIRED_CLASSES = ['gnim:extracted', 'ladder:two-imfs', 'zc:count-positive', 'gnim:integer-input']
EXPECTED_LABELS = ['never-raises', 'masked-imf-is-phase-average-with-mask-removed', 'continue-flag-is-any', 'zero-amplitude-is-plain-extraction',
                   'returned-mask-frequencies', 'imf-uses-documented-frequency-and-amplitude', 'no-worker-local-state']
BUDGET_S = {'quick': 170, 'thorough': 900}
OPTS = {'quick': {'sample_every': 17, 'path_wall_s': 15}, 'thorough': {'sample_every': 31, 'timeout_ms': 20000}}
IMF_OPTS = {'stop_method': 'fixed', 'max_iters': 1}
TOL = 1e-9


def configs(tier):
    q = tier == 'quick'
    out = [('gnim-z0.3-1phase-ampsym-P1', {'kind': 'gnim', 'N': 6, 'z': 0.3, 'nphases': 1, 'amp': 'sym', 'P': 1}),
           ('gnim-z0.125-2phase-amp0.5-P2', {'kind': 'gnim', 'N': 6, 'z': 0.125, 'nphases': 2, 'amp': 0.5, 'P': 2, '_budget_s': 40 if q else 400}),
           ('gnim-z0.3-3phase-amp0.5-P2', {'kind': 'gnim', 'N': 6, 'z': 0.3, 'nphases': 3, 'amp': 0.5, 'P': 2, '_budget_s': 40 if q else 400}),
           ('zeroamp-z0.3', {'kind': 'zero', 'N': 6, 'z': 0.3, 'nphases': 2}),
           # non-default envelope / extrema options must govern the masked extractions on every schedule (serial and pooled)
           ('gnim-z0.3-1phase-amp0.5-P1-padwidth1-N7', {'kind': 'gnim', 'N': 7, 'z': 0.3, 'nphases': 1, 'amp': 0.5, 'P': 1,
                                                        'ext_opts': {'pad_width': 1}, '_budget_s': 30 if q else 200}),
           ('gnim-z0.3-2phase-amp0.5-P1-int-input', {'kind': 'gnim', 'N': 6, 'z': 0.3, 'nphases': 2, 'amp': 0.5, 'P': 1, 'int_input': True,
                                                     '_budget_s': 25 if q else 200}),
           ('gnim-z0.3-1phase-amp0.5-P1-pchip', {'kind': 'gnim', 'N': 6, 'z': 0.3, 'nphases': 1, 'amp': 0.5, 'P': 1,
                                                 'env_opts': {'interp_method': 'pchip'}, '_budget_s': 30 if q else 300})]
    if not q:
        out += [('gnim-z0.05-3phase-amp1-P3', {'kind': 'gnim', 'N': 6, 'z': 0.05, 'nphases': 3, 'amp': 1.0, 'P': 3, '_budget_s': 400}),
                ('gnim-z0.3-4phase-amp0.25-P1', {'kind': 'gnim', 'N': 6, 'z': 0.3, 'nphases': 4, 'amp': 0.25, 'P': 1, '_budget_s': 400})]
    for mode in ('abs', 'ratio_sig', 'ratio_imf'):
        for src in (('float2', 'list') if q else ('float2', 'float3', 'list')):
            for amp in (('scalar',) if (q and mode == 'ratio_sig') else (('array',) if (q and mode == 'ratio_imf') else ('scalar', 'array'))):
                out.append(('masksift-%s-%s-%s' % (mode, src, amp),
                            {'kind': 'masksift', 'N': 6, 'mode': mode, 'src': src, 'ampkind': amp, 'nphases': 1, '_budget_s': (60 if (mode == 'ratio_imf' and amp == 'array') else 25) if q else 200}))
    out.append(('masksift-ratio_imf-list-array-N7', {'kind': 'masksift', 'N': 7, 'mode': 'ratio_imf', 'src': 'list', 'ampkind': 'array', 'nphases': 1,
                                                      '_budget_s': 60 if q else 400}))
    out.append(('masksift-abs-zc-scalar', {'kind': 'masksift', 'N': 6, 'mode': 'abs', 'src': 'zc', 'ampkind': 'scalar', 'nphases': 1,
                                           '_budget_s': 30 if q else 300}))
    return out


def spec_masked(h, X, N, z, amp, nphases, **stage_opts):
    """documented rule: average over phases of get_next_imf(X + mask) - mask; flag = any"""
    t = np.arange(N)
    outs = []
    flags = []
    for j in range(nphases):
        ph = 2 * math.pi * j / nphases
        m = np.cos(2 * math.pi * z * t + ph) * amp
        r, f = S.get_next_imf((X + m).reshape(N, 1), **IMF_OPTS, **stage_opts)
        outs.append(np.asarray(r)[:, 0] - m)
        flags.append(bool(f))
    acc = outs[0]
    for o in outs[1:]:
        acc = acc + o
    return acc / nphases, any(flags)


def harness(h):
    kind, N = h.params['kind'], h.params['N']
    if h.params.get('int_input'):
        X = h.int_array('x', N, -8, 8)        # raw counts: the masks are real-valued sinusoids whatever the input dtype
        h.note('gnim:integer-input')
    else:
        X = h.reals('x', N, lo=-8, hi=8)
    h.set_option('sqrt', 'abstract-pos')
    rng_before = None
    if h.symbolic:
        from symnp import stubs
        rng_before = len(stubs.RNG.draws)
    try:
        with common.trace_sift(max_gni=300, max_env=3000):
            if kind == 'gnim':
                gnim(h, X, N)
            elif kind == 'zero':
                z, nph = h.params['z'], h.params['nphases']
                a, fa = S.get_next_imf_mask(X, z, 0, nphases=nph, imf_opts=dict(IMF_OPTS))
                b, fb = S.get_next_imf(X, **IMF_OPTS)
                h.check_eq(np.asarray(a), np.asarray(b), 'zero-amplitude-is-plain-extraction', 'imf')
                h.check(bool(fa) == bool(fb), 'zero-amplitude-is-plain-extraction', 'flag')
            else:
                masksift(h, X, N)
    except EMDSiftCovergeError:
        return
    except Exception as e:
        h.fail('never-raises', '%s: %s' % (type(e).__name__, e))
        return
    h.check(True, 'never-raises')
    if h.symbolic:
        from symnp import stubs
        h.check(len(stubs.RNG.draws) == rng_before, 'no-worker-local-state', 'random numbers were drawn inside a masked extraction')
    else:
        h.check(True, 'no-worker-local-state')


def gnim(h, X, N):
    z, nph, P = h.params['z'], h.params['nphases'], h.params['P']
    amp = h.real('amp', lo=0, hi=4, lo_open=True) if h.params['amp'] == 'sym' else h.params['amp']
    stage = {}
    if h.params.get('env_opts'):
        stage['envelope_opts'] = dict(h.params['env_opts'])
    if h.params.get('ext_opts'):
        stage['extrema_opts'] = dict(h.params['ext_opts'])
    got, flag = S.get_next_imf_mask(X, z, amp, nphases=nph, nprocesses=P, imf_opts=dict(IMF_OPTS), **{k: dict(v) for k, v in stage.items()})
    want, wflag = spec_masked(h, X, N, z, amp, nph, **stage)
    got = np.asarray(got)
    h.note('gnim:extracted')
    h.observe('masked_imf', got)
    h.check(got.shape == (N, 1), 'masked-imf-is-phase-average-with-mask-removed', got.shape)
    if got.shape == (N, 1):
        h.check_close(got[:, 0], want, TOL, 'masked-imf-is-phase-average-with-mask-removed', (z, nph))
    h.check(bool(flag) == wflag, 'continue-flag-is-any', (bool(flag), wflag))


def std(v):
    return np.asarray(v).std()


def masksift(h, X, N):
    mode, src, ampkind, nph = h.params['mode'], h.params['src'], h.params['ampkind'], h.params['nphases']
    K = 2
    mask_amp = 0.5 if ampkind == 'scalar' else np.array([0.5, 0.25, 0.125])
    kw = dict(mask_amp=mask_amp, mask_amp_mode=mode, nphases=nph, max_imfs=K, sift_thresh=0, ret_mask_freq=True, imf_opts=dict(IMF_OPTS))
    if src.startswith('float'):
        step = int(src[5:])
        z0 = 0.3
        imf, freqs = S.mask_sift(X, mask_freqs=z0, mask_step_factor=step, **kw)
        want_f = [z0 / step ** i for i in range(K)]
    elif src == 'list':
        lst = [0.3, 0.4, 0.05]     # a fast second mask: on 6 samples only a fast mask can make the amplitude of the second IMF matter
        imf, freqs = S.mask_sift(X, mask_freqs=lst, **kw)
        want_f = lst
    else:
        imf, freqs = S.mask_sift(X, mask_freqs='zc', mask_step_factor=2, **kw)
        first, _ = S.get_next_imf(X.reshape(N, 1), **IMF_OPTS)
        first = np.asarray(first)[:, 0]
        sg = [(1 if bool(v > 0) else (-1 if bool(v < 0) else 0)) for v in first]
        nzc = sum(1 for a, b in zip(sg[:-1], sg[1:]) if a != b)
        if nzc > 0:
            h.note('zc:count-positive')
        want_f = [nzc / N / 4 / 2 ** i for i in range(K)]
    imf = np.asarray(imf)
    freqs = [float(f) for f in np.asarray(freqs, dtype=float)][:max(imf.shape[1], 1)] if not isinstance(freqs, list) else freqs
    ok = all(abs(float(a) - float(b)) <= 1e-12 for a, b in zip(list(np.asarray(freqs, dtype=float)), want_f)) \
        and len(np.asarray(freqs)) >= imf.shape[1]
    h.check(ok, 'returned-mask-frequencies', (list(np.asarray(freqs, dtype=float)), want_f))
    if not ok:
        return
    if imf.shape[1] >= 2:
        h.note('ladder:two-imfs')
    # every IMF is the masked extraction of the running residual at the documented frequency and amplitude
    resid = X
    for i in range(imf.shape[1]):
        base = mask_amp if ampkind == 'scalar' else mask_amp[i]
        if mode == 'abs':
            amp = base
        elif mode == 'ratio_sig':
            amp = std(X) * base
        else:
            amp = (std(X) if i == 0 else std(imf[:, i - 1])) * base
        want, _ = spec_masked(h, resid, N, want_f[i], amp, nph)
        h.check_close(imf[:, i], want, TOL, 'imf-uses-documented-frequency-and-amplitude', (mode, src, ampkind, i))
        resid = resid - imf[:, i]
