"""C15 - the cycle container keeps metrics, subsets and chains coherent under operation histories; cache on == cache off."""
import math

import numpy as np

import emd
from emd import cycles as CY

PROPERTY = 'C15'
FUNCTIONS = ['emd.cycles.Cycles (__init__, compute_cycle_metric, add_cycle_metric, compute_cycle_timings, pick_cycle_subset, '
             'compute_chain_timings, compute_chain_metric, compute_position_in_chain, get_matching_cycles, _parse_condition, '
             'get_metric_dataframe)', 'emd.cycles.get_subset_vector / get_chain_vector',
             'emd._cycles_support (slice cache, per-cycle statistics, chain statistics, projections)']
BOUNDS = {
    'quick': 'containers over N = 3..5 symbolic phases with >= 1 wrap and as many symbolic sample values; every history of <= 2 operations (N = 3) and 1 operation (N = 4) from '
             '{compute metric (max/sum/len/first), add metric, compute timings, pick subset (1-2 conditions over all six comparators with '
             'negative/decimal/exponent literals, compared with symbolic metric values), chain timings, export table}; operation codes are solver '
             'integers; each history runs on a cached and an uncached container in the same path',
    'thorough': 'N = 4..5 with <= 2 operations, N = 4 with <= 3 operations, N = 6 with 1 operation',
}
OUTSIDE = "histories longer than 3 (the property mentions 12), augmented-cycle metrics, more than 2 conditions per selection, wrap-free phase"
ASSUMPTIONS = ['phases already wrapped into [0,2pi) with at least one wrap', 'phase_step = 1.5 pi (default)']
REQUIRED_CLASSES = ['subset-picked', 'two-chains', 'export', 'metric-computed', 'integer-sample-data']
EXPECTED_LABELS = ['no-unexpected-exception', 'metrics-match-per-cycle-recomputation', 'subset-is-exactly-the-matching-cycles',
                   'chains-are-maximal-runs', 'cache-on-equals-cache-off', 'chain-metrics-and-export-agree']
BUDGET_S = {'quick': 170, 'thorough': 900}
OPTS = {'quick': {'sample_every': 0, 'concolic': False}, 'thorough': {'sample_every': 0, 'concolic': False}}
OPTS = {'quick': {'sample_every': 211, 'concolic': False}, 'thorough': {'sample_every': 1009, 'concolic': False}}
TWO_PI = 2 * math.pi
STEP = 1.5 * math.pi

FUNCS = [('max', np.max), ('sum', np.sum), ('len', len), ('first', CY.cf_start_value), ('mean', np.mean)]
CONDS = ['is_good==1', 'is_good!=1', 'v>-0.5', 'v<=1e-1', 'v>=.5', 'v<2', 'v==0', 'v!=-1.5']


def configs(tier):
    if tier == 'quick':
        return [('history-N3-d2', {'N': 3, 'depth': 2}), ('history-N4-d1', {'N': 4, 'depth': 1}),
                ('history-N3-d3-metric+pick', {'N': 3, 'depth': 3, 'ops': [0, 1, 3], '_budget_s': 60}),
                # integer-dtype sample data (state labels, counts): a metric is the function's value, not cast to the data's dtype
                ('history-N4-d2-int-data', {'N': 4, 'depth': 2, 'ops': [0, 3], 'int_data': True, '_budget_s': 40})]
    return [('history-N3-d3', {'N': 3, 'depth': 3}), ('history-N5-d1', {'N': 5, 'depth': 1}), ('history-N4-d2', {'N': 4, 'depth': 2}), ('history-N5-d2', {'N': 5, 'depth': 2}), ('history-N4-d3', {'N': 4, 'depth': 3}),
            ('history-N6-d1', {'N': 6, 'depth': 1}), ('history-N4-d2-int-data', {'N': 4, 'depth': 2, 'ops': [0, 3], 'int_data': True}),
            ('history-N5-d2-int-data', {'N': 5, 'depth': 2, 'ops': [0, 3], 'int_data': True})]


def ref_fn(name, vals):
    if name == 'max':
        m = vals[0]
        for x in vals[1:]:
            if bool(x > m):
                m = x
        return m
    if name == 'sum':
        return sum(vals[1:], vals[0])
    if name == 'len':
        return len(vals)
    if name == 'mean':
        return sum(vals[1:], vals[0]) / len(vals)
    return vals[0]


def parse(cond):
    for op in ('==', '!=', '<=', '>=', '<', '>'):
        if op in cond:
            name, lit = cond.split(op)
            return name, op, float(lit)
    raise ValueError(cond)


def holds(val, op, lit):
    return {'==': lambda: bool(val == lit), '!=': lambda: bool(val != lit), '<=': lambda: bool(val <= lit),
            '>=': lambda: bool(val >= lit), '<': lambda: bool(val < lit), '>': lambda: bool(val > lit)}[op]()


def eq_list(h, got, want):
    """exact comparison of two per-cycle value lists (symbolic entries become solver conditions)"""
    got = list(np.asarray(got, dtype=object).ravel())
    if len(got) != len(want):
        return False
    for g, w in zip(got, want):
        if not bool(g == w):
            return False
    return True


def harness(h):
    N, depth = h.params['N'], h.params['depth']
    p = h.reals('p', N, lo=0, hi=TWO_PI, hi_open=True)
    if h.params.get('int_data'):
        x = h.int_array('x', N, -4, 4)
        h.note('integer-sample-data')
    else:
        x = h.reals('x', N, lo=-4, hi=4)
    w = [bool(abs(p[i + 1] - p[i]) > STEP) for i in range(N - 1)]
    if not any(w):
        return
    starts = [0] + [i + 1 for i in range(N - 1) if w[i]]
    ends = [i for i in range(N - 1) if w[i]] + [N - 1]
    segs = list(zip(starts, ends))
    ncyc = len(segs)
    try:
        con = [CY.Cycles(p, use_cache=True), CY.Cycles(p, use_cache=False)]
    except Exception as e:
        h.fail('no-unexpected-exception', 'constructor: %s: %s' % (type(e).__name__, e))
        return
    model = {}          # reference metrics: name -> list per cycle
    good = []
    for (s, e) in segs:
        incr = all(bool(p[i + 1] > p[i]) for i in range(s, e))
        good.append(1 if (incr and bool(p[s] <= math.pi / 12) and bool(p[e] >= TWO_PI - math.pi / 12)) else 0)
    model['is_good'] = good
    subset = None       # list of selected cycle indices
    last_conds = None
    errors = []
    ok_metrics = ok_subset = ok_chain = ok_cache = ok_export = True
    det = {}
    k_metric = 0
    for step in range(depth):
        allowed = h.params.get('ops', [0, 1, 2, 3, 4, 5])
        op = allowed[int(h.int('op%d' % step, 0, len(allowed) - 1))]
        par = h.int('par%d' % step, 0, 7)
        par2 = h.int('parb%d' % step, 0, 2)
        if op == 0:
            h.assume(par <= (4 if h.params.get('int_data') else 3))
            h.assume(par2 == 0)
        elif op == 3:
            pass
        else:
            h.assume(par == 0)
            h.assume(par2 == 0)
        par, par2 = int(par), int(par2)
        expect_error = False
        try:
            if op == 0:
                name, fn = FUNCS[par]
                for c in con:
                    c.compute_cycle_metric('v', x, fn)
                model['v'] = [ref_fn(name, [x[i] for i in range(s, e + 1)]) for (s, e) in segs]
                h.note('metric-computed')
            elif op == 1:
                vals = h.reals('a%d' % step, ncyc, lo=-4, hi=4)
                for c in con:
                    c.add_cycle_metric('v', np.array(vals, dtype=object if h.symbolic else float))
                model['v'] = list(vals)
            elif op == 2:
                for c in con:
                    c.compute_cycle_timings()
                model['start_sample'] = [s for (s, e) in segs]
                model['stop_sample'] = [e for (s, e) in segs]
                model['duration'] = [e - s + 1 for (s, e) in segs]
            elif op == 3:
                conds = [CONDS[par]] + ([CONDS[par2 - 1]] if par2 > 0 else [])
                if any(parse(cd)[0] not in model for cd in conds):
                    expect_error = True
                for c in con:
                    c.pick_cycle_subset(conds if len(conds) > 1 else conds[0])
                sel = []
                for ci in range(ncyc):
                    if all(holds(model[parse(cd)[0]][ci], parse(cd)[1], parse(cd)[2]) for cd in conds):
                        sel.append(ci)
                subset = sel
                last_conds = conds
                h.note('subset-picked' if sel else 'subset-empty')
                chain_of = []
                ch = -1
                prev = None
                for ci in sel:
                    if prev is None or ci != prev + 1:
                        ch += 1
                    chain_of.append(ch)
                    prev = ci
                if ch >= 1:
                    h.note('two-chains')
                model['chain_ind'] = [(chain_of[sel.index(ci)] if ci in sel else -1) for ci in range(ncyc)]
                for c in con:
                    sv = [int(v) for v in c.subset_vect]
                    want_sv = [(sel.index(ci) if ci in sel else -1) for ci in range(ncyc)]
                    if sv != want_sv:
                        ok_subset = False
                        det['subset'] = (conds, sv, want_sv)
                    if [int(v) for v in c.chain_vect] != chain_of:
                        ok_chain = False
                        det['chain'] = (conds, [int(v) for v in c.chain_vect], chain_of)
                    mm = [bool(v) for v in c.get_matching_cycles(conds)]
                    if mm != [ci in sel for ci in range(ncyc)]:
                        ok_subset = False
                        det['subset'] = (conds, mm)
            elif op == 4:
                if subset is None:
                    expect_error = True
                for c in con:
                    c.compute_chain_timings()
                sel = subset
                chain_of = [int(v) for v in con[0].chain_vect]
                nch = (max(chain_of) + 1) if chain_of else 0
                cs, ce, cl, cc = [], [], [], []
                for ch in range(nch):
                    members = [sel[k] for k in range(len(sel)) if chain_of[k] == ch]
                    cs.append(segs[members[0]][0])
                    ce.append(segs[members[-1]][1])
                    cl.append(sum(segs[m][1] - segs[m][0] + 1 for m in members))
                    cc.append(len(members))

                def proj(v):
                    return [(v[chain_of[sel.index(ci)]] if ci in sel else -1) for ci in range(ncyc)]
                model['chain_start'] = proj(cs)
                model['chain_end'] = proj(ce)
                model['chain_len_samples'] = proj(cl)
                model['chain_len_cycles'] = proj(cc)
                pos = []
                for ci in range(ncyc):
                    if ci in sel:
                        k = sel.index(ci)
                        pos.append(sum(1 for j in range(k) if chain_of[j] == chain_of[k]))
                    else:
                        pos.append(-1)
                model['chain_position'] = pos
            else:
                h.note('export')
                for c in con:
                    df = c.get_metric_dataframe()
                    if sorted(df.columns) != sorted(model.keys()) or len(df) != ncyc:
                        ok_export = False
                        det['export'] = (sorted(df.columns), sorted(model.keys()), len(df))
                    if subset is not None:
                        d2 = c.get_metric_dataframe(subset=True)
                        if len(d2) != len(subset):
                            ok_export = False
                            det['export'] = ('subset rows', len(d2), len(subset))
            if expect_error:
                errors.append('step %d op %d: expected an error (missing metric / no subset) but the call succeeded' % (step, op))
        except Exception as e:
            if not expect_error:
                errors.append('step %d op %d par %s: %s: %s' % (step, op, (par, par2), type(e).__name__, e))
            break
        # ---- invariants after the step
        if subset is not None and last_conds is not None and all(parse(cd)[0] in model for cd in last_conds):
            now = [all(holds(model[parse(cd)[0]][ci], parse(cd)[1], parse(cd)[2]) for cd in last_conds) for ci in range(ncyc)]
            for c in con:
                mm = [bool(v) for v in c.get_matching_cycles(last_conds)]
                if mm != now:
                    ok_subset = False
                    det['subset'] = ('get_matching_cycles after a metric changed', last_conds, mm, now)
        for c in con:
            for name, want in model.items():
                if name not in c.metrics:
                    ok_metrics = False
                    det['metrics'] = ('missing', name)
                elif not eq_list(h, c.metrics[name], want):
                    ok_metrics = False
                    det['metrics'] = (name, str(list(c.metrics[name]))[:80], str(want)[:80])
            for name in c.metrics:
                if len(c.metrics[name]) != ncyc:
                    ok_metrics = False
                    det['metrics'] = ('length', name)
        for name in con[0].metrics:
            if name not in con[1].metrics or not eq_list(h, con[0].metrics[name], list(np.asarray(con[1].metrics[name], dtype=object))):
                ok_cache = False
                det['cache'] = name
    h.check(not errors, 'no-unexpected-exception', errors[:2])
    h.check(ok_metrics, 'metrics-match-per-cycle-recomputation', det.get('metrics'))
    h.check(ok_subset, 'subset-is-exactly-the-matching-cycles', det.get('subset'))
    h.check(ok_chain, 'chains-are-maximal-runs', det.get('chain'))
    h.check(ok_cache, 'cache-on-equals-cache-off', det.get('cache'))
    h.check(ok_export, 'chain-metrics-and-export-agree', det.get('export'))
