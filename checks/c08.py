"""C08 - ensemble sifts average genuinely independent noise realisations."""
import numpy as np

import emd
from emd import sift as S
from emd.support import EMDSiftCovergeError

from checks import common
from symnp import core
from symnp.core import SymReal, lift

PROPERTY = 'C08'
FUNCTIONS = ['emd.sift.ensemble_sift', 'emd.sift._sift_with_noise', 'emd.sift.complete_ensemble_sift',
             'emd.sift.sift (opaque in the noise/averaging clauses, real in the zero-noise clause)']
BOUNDS = {
    'quick': 'ensemble_sift with 2..3 members on 1..2 worker processes, 5 members on 1 and 6 members on 2 (more members than the default ensemble size and than any plausible dispatch block) (every job-to-worker assignment up to worker renaming is a solver-side '
             'choice), noise modes {single, flip}; complete_ensemble_sift with 2 members; N = 4 symbolic samples; noise draws are solver variables '
             'named by (stream state, position), process fork copies the stream state; zero-noise clause: N = 6, caps 1..2, real sift',
    'thorough': 'up to 6 members on up to 4 workers; complete ensemble with up to 4 members on up to 3 workers; zero-noise clause N <= 7, caps 1..3, fixed(1) and fixed(2)',
}
OUTSIDE = 'the bit generator itself (independence is decided at the level of stream positions: two members fed from the same state and position ' \
          'receive identical numbers); OS scheduling (any assignment of jobs to workers is considered possible); larger ensembles'
ASSUMPTIONS = ['sift is an opaque pure function of its input in the noise/averaging clauses (purity: C19)',
               'multiprocessing: fork start method - every worker starts from a copy of the parent RNG state taken when the pool is created; '
               'starmap is order preserving',
               'replays use real pools and the guarded member_noise hook; a schedule that happens to put all jobs on one worker does not '
               'reproduce a collision found for two workers (reported as not reproduced)']
REQUIRED_CLASSES = ['two-workers-used', 'flip-mode', 'single-mode']
EXPECTED_LABELS = ['never-raises', 'members-have-distinct-noise', 'output-is-mean-of-members', 'zero-noise-equals-classic-sift',
                   'complete-ensemble-members-distinct-noise', 'complete-ensemble-first-imf-is-mean']
BUDGET_S = {'quick': 120, 'thorough': 900}
OPTS = {'quick': {'sample_every': 3, 'concolic': False}, 'thorough': {'sample_every': 3, 'concolic': False}}


def configs(tier):
    q = tier == 'quick'
    out = []
    grid = [(2, 1), (2, 2), (3, 2), (5, 1), (6, 2)] if q else [(2, 1), (2, 2), (3, 2), (5, 1), (4, 2), (3, 3), (4, 3), (5, 2), (5, 3), (5, 4), (6, 2), (6, 3), (9, 2)]
    for nens, P in grid:
        for mode in ('single', 'flip'):
            out.append(('ensemble-n%d-P%d-%s' % (nens, P, mode), {'kind': 'ens', 'nens': nens, 'P': P, 'mode': mode, 'N': 4}))
    for P in (1, 2):
        out.append(('complete-n2-P%d' % P, {'kind': 'complete', 'nens': 2, 'P': P, 'mode': 'single', 'N': 4}))
    if not q:
        for nens, P in ((3, 1), (3, 2), (3, 3), (4, 2)):
            out.append(('complete-n%d-P%d' % (nens, P), {'kind': 'complete', 'nens': nens, 'P': P, 'mode': 'single', 'N': 4}))
        out.append(('zero-noise-N7-cap2-fixed2', {'kind': 'zero', 'N': 7, 'k': 2, 'stop': 'fixed2'}))
        out.append(('zero-noise-N7-cap3', {'kind': 'zero', 'N': 7, 'k': 3, 'stop': 'fixed1'}))
    for k in (1, 2):
        out.append(('zero-noise-N6-cap%d' % k, {'kind': 'zero', 'N': 6, 'k': k, 'stop': 'fixed1' if q or k == 1 else 'fixed2'}))
    out.append(('zero-noise-integer-input', {'kind': 'zero', 'N': 8, 'k': 2, 'stop': 'fixed1', 'int_input': True}))
    return out


def opaque_sift(X, sift_thresh=1e-8, max_imfs=None, verbose=None, imf_opts=None, envelope_opts=None, extrema_opts=None):
    from symnp import stubs
    stubs._used('sift replaced by an opaque pure function of its input (uninterpreted, 2 columns)')
    X = np.asarray(X, dtype=object)
    col = X[:, 0] if X.ndim == 2 else X
    n = len(col)
    K = max_imfs if max_imfs is not None else 2
    out = np.empty((n, K), dtype=object)
    args = [lift(v).rt for v in col]
    for j in range(n):
        for k in range(K):
            out[j, k] = SymReal(core.uf('sift_%d_%d_of_%d' % (j, k, n), n)(*args))
    return out.view(stubs.SymArray)


class opaque(object):
    def __init__(self, h):
        self.h = h

    def __enter__(self):
        self.real = S.sift
        if self.h.symbolic:
            S.sift = opaque_sift

    def __exit__(self, *a):
        S.sift = self.real
        return False


def differs(h, a, b):
    """is 'a and b are not the same realisation' possible?  symbolic: some entry can differ; concrete: arrays differ"""
    a = np.asarray(a, dtype=object).ravel()
    b = np.asarray(b, dtype=object).ravel()
    if not h.symbolic:
        return not all(float(x) == float(y) for x, y in zip(a, b))
    import z3
    conds = []
    for x, y in zip(a, b):
        lx, ly = lift(x), lift(y)
        conds.append(lx.rt != ly.rt)
    return core.SymBool(z3.Or(*conds))


def harness(h):
    kind, N = h.params['kind'], h.params['N']
    X = h.reals('x', N)
    h.set_option('sqrt', 'abstract-pos')
    if h.params.get('int_input'):
        # integer-stored recording (ADC counts): a concrete int64 array; only the (zero-scaled) noise is symbolic
        X = np.array([3, -1, 4, 1, -5, 9, 2, 6][:N], dtype=np.int64)
        h.set_option('sqrt', 'exact')
    if kind == 'zero':
        imf_opts, env_opts, ext_opts = common.sift_options(h, {'stop': h.params['stop']})
        k = h.params['k']
        try:
            with common.trace_sift(max_gni=200, max_env=2000):
                ref = np.asarray(S.sift(X.astype(float) if h.params.get('int_input') else X, max_imfs=k, imf_opts=imf_opts))
                ens = np.asarray(S.ensemble_sift(X, nensembles=2, ensemble_noise=0, max_imfs=k, imf_opts=imf_opts))
        except EMDSiftCovergeError:
            return
        except IndexError:
            return          # members with fewer IMFs than the cap (see C03)
        except Exception as e:
            h.fail('never-raises', '%s: %s' % (type(e).__name__, e))
            return
        h.check(True, 'never-raises')
        h.check(ens.shape == ref.shape, 'zero-noise-equals-classic-sift', (ens.shape, ref.shape))
        if ens.shape == ref.shape:
            h.check_eq(ens, ref, 'zero-noise-equals-classic-sift', k)
        return
    nens, P, mode = h.params['nens'], h.params['P'], h.params['mode']
    h.note('flip-mode' if mode == 'flip' else 'single-mode')
    with opaque(h):
        with common.Collector(h) as col:
            try:
                if kind == 'ens':
                    out = S.ensemble_sift(X, nensembles=nens, ensemble_noise=0.5, noise_mode=mode, nprocesses=P, max_imfs=1,
                                          imf_opts={'stop_method': 'fixed', 'max_iters': 1})
                else:
                    out, _ = S.complete_ensemble_sift(X, nensembles=nens, ensemble_noise=0.5, noise_mode=mode, nprocesses=P,
                                                      max_imfs=1, imf_opts={'stop_method': 'fixed', 'max_iters': 1})
            except IndexError:
                return
            except Exception as e:
                h.fail('never-raises', '%s: %s' % (type(e).__name__, e))
                return
        # (trace files of worker processes are read when the collector closes)
        # expected members recomputed from the noise that was actually added
        noises = {}
        for kind_, rec in col.calls:
            if kind_ == 'member_noise' and rec.get('job_ind') is not None:
                noises.setdefault(int(rec['job_ind']), []).append(np.asarray(rec['noise'], dtype=object if h.symbolic else float))
        # complete ensemble: only the first starmap (first IMF) is compared; later rounds reuse the job indices
        first = {j: v[0] for j, v in noises.items()}
        members = []
        for j in range(nens):
            nz = first.get(j)
            if nz is None:
                h.fail('output-is-mean-of-members', 'no noise record for member %d' % j)
                return
            nz = nz.reshape(N, 1)
            Xc = np.asarray(X).reshape(N, 1)
            a = np.asarray(S.sift(Xc + nz, max_imfs=1, imf_opts={'stop_method': 'fixed', 'max_iters': 1}))
            if mode == 'flip':
                b = np.asarray(S.sift(Xc - nz, max_imfs=1, imf_opts={'stop_method': 'fixed', 'max_iters': 1}))
                if a.shape != b.shape:
                    return
                a = (a + b) / 2
            members.append(a)
    h.check(True, 'never-raises')
    if h.symbolic:
        from symnp import stubs
        if len(set(w for (_, _, w) in stubs.InlinePool.log)) >= 2:
            h.note('two-workers-used')
    elif P >= 2:
        h.note('two-workers-used')
    lab_d = 'members-have-distinct-noise' if kind == 'ens' else 'complete-ensemble-members-distinct-noise'
    lab_m = 'output-is-mean-of-members' if kind == 'ens' else 'complete-ensemble-first-imf-is-mean'
    for i in range(nens):
        for j in range(i + 1, nens):
            h.check_possible(differs(h, first[i], first[j]), lab_d, 'members %d and %d received the same noise realisation' % (i, j))
    if any(m.shape != members[0].shape for m in members):
        return
    acc = members[0]
    for m in members[1:]:
        acc = acc + m
    want = acc / nens
    out = np.asarray(out)
    h.check(out.shape == want.shape, lab_m, (out.shape, want.shape))
    if out.shape == want.shape:
        h.check_eq(out, want, lab_m, mode)
