"""C11 - the holospectrum bins energy jointly by carrier and amplitude-modulation frequency."""
import numpy as np

import emd

PROPERTY = 'C11'
FUNCTIONS = ['emd.spectra.holospectrum (squash_time in {False, sum, mean})', 'emd.spectra.define_hist_bins',
             'emd.support.ensure_2d / ensure_equal_dims']
BOUNDS = {
    'quick': 'first-level frequencies [T x M] and second-level frequency/amplitude arrays [T x M x K] of unbounded symbolic reals with '
             'T*M*K <= 2 with carrier bins linear 1..2 on [1,5] and AM bins linear 1..3 on [0,3] (different sizes so that '
             'a transposed fold is visible), and T*M*K = 4 (2x1x2, 1x2x2, 2x2x1) with at most 2 cells; modes {energy, amplitude}; all three squash_time settings',
    'thorough': 'T*M*K <= 4 (e.g. 2x1x2, 1x2x2, 2x2x1), carrier bins 1..3, AM bins 1..3',
}
OUTSIDE = 'larger arrays; float rounding of bin edges; NaN/inf'
ASSUMPTIONS = ['sparse.coo_matrix (and its sum/mean over axis 0) modelled as dense accumulation; real scipy in replays']
REQUIRED_CLASSES = ['carrier-out-of-range', 'am-out-of-range', 'both-in-range', 'two-samples-same-cell']
EXPECTED_LABELS = ['never-raises', 'full-equals-bruteforce', 'shape', 'sum-equals-time-sum', 'mean-equals-time-mean']
BUDGET_S = {'quick': 150, 'thorough': 900}


def configs(tier):
    out = []
    if tier == 'quick':
        shapes = [(1, 1, 1), (2, 1, 1), (1, 2, 1), (1, 1, 2), (2, 1, 2), (1, 2, 2), (2, 2, 1)]
        bins = [(1, 1), (2, 3), (2, 1)]
    else:
        shapes = [(1, 1, 1), (2, 1, 1), (1, 2, 1), (1, 1, 2), (2, 1, 2), (1, 2, 2), (2, 2, 1)]
        bins = [(1, 1), (2, 3), (3, 2)]
    for (T, M, K) in shapes:
        for (nc, na) in bins:
            if T * M * K >= 4 and nc * na > 2:
                continue
            if T * M * K >= 8 and nc * na > 1:
                continue
            for mode in ('energy', 'amplitude'):
                if mode == 'amplitude' and (nc, na) != (2, 3):
                    continue
                out.append(('%dx%dx%d-c%d-a%d-%s' % (T, M, K, nc, na, mode),
                            {'T': T, 'M': M, 'K': K, 'nc': nc, 'na': na, 'mode': mode}))
    # inputs that are not C-contiguous (Fortran-ordered views): the binning must not depend on the memory layout
    for (T, M, K) in ([(2, 1, 2)] if tier == 'quick' else [(2, 1, 2), (2, 2, 1), (1, 2, 2)]):
        for mode in ('energy', 'amplitude'):
            out.append(('%dx%dx%d-c2-a1-%s-layoutF' % (T, M, K, mode), {'T': T, 'M': M, 'K': K, 'nc': 2, 'na': 1, 'mode': mode, 'layout': 'F'}))
    return out


def harness(h):
    T, M, K = h.params['T'], h.params['M'], h.params['K']
    nc, na, mode = h.params['nc'], h.params['na'], h.params['mode']
    f1 = h.reals('f1', T * M).reshape(T, M)
    f2 = h.reals('f2', T * M * K).reshape(T, M, K)
    a2 = h.reals('a2', T * M * K).reshape(T, M, K)
    if h.params.get('layout') == 'F':
        f1 = h.reals('f1', T * M).reshape(M, T).T
        f2 = np.transpose(h.reals('f2', T * M * K).reshape(K, M, T), (2, 1, 0))
        a2 = np.transpose(h.reals('a2', T * M * K).reshape(K, M, T), (2, 1, 0))
    ce, _ = emd.spectra.define_hist_bins(1, 5, nc)
    ae, _ = emd.spectra.define_hist_bins(0, 3, na)
    try:
        full = emd.spectra.holospectrum(f1, f2, a2, ce, ae, mode=mode, squash_time=False)
        hs = emd.spectra.holospectrum(f1, f2, a2, ce, ae, mode=mode, squash_time='sum')
        hm = emd.spectra.holospectrum(f1, f2, a2, ce, ae, mode=mode, squash_time='mean')
    except Exception as e:
        h.fail('never-raises', '%s: %s' % (type(e).__name__, e))
        return
    h.check(True, 'never-raises')
    full, hs, hm = np.asarray(full), np.asarray(hs), np.asarray(hm)
    h.observe('full', full)
    h.observe('sum', hs)
    pw = 2 if mode == 'energy' else 1
    want = np.zeros((T, na, nc), dtype=object)
    cells = set()
    for t in range(T):
        for m in range(M):
            cb = None
            for b in range(nc):
                if bool(f1[t, m] >= ce[b]) and bool(f1[t, m] < ce[b + 1]):
                    cb = b
            if cb is None:
                h.note('carrier-out-of-range')
            for k in range(K):
                ab = None
                for b in range(na):
                    if bool(f2[t, m, k] >= ae[b]) and bool(f2[t, m, k] < ae[b + 1]):
                        ab = b
                if ab is None:
                    h.note('am-out-of-range')
                if ab is None or cb is None:
                    continue
                h.note('both-in-range')
                want[t, ab, cb] = want[t, ab, cb] + a2[t, m, k] ** pw
                if (t, ab, cb) in cells:
                    h.note('two-samples-same-cell')
                cells.add((t, ab, cb))
    h.check(full.shape == (T, na, nc) and hs.shape == (na, nc) and hm.shape == (na, nc), 'shape', (full.shape, hs.shape, hm.shape))
    if not (full.shape == (T, na, nc) and hs.shape == (na, nc) and hm.shape == (na, nc)):
        return
    h.check_eq(full, want, 'full-equals-bruteforce')
    h.check_eq(hs, want.sum(axis=0), 'sum-equals-time-sum')
    h.check_eq(hm, want.sum(axis=0) / T, 'mean-equals-time-mean')
