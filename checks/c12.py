"""C12 - cycle detection partitions the phase series at its phase wraps."""
import math

import numpy as np

import emd

PROPERTY = 'C12'
FUNCTIONS = ['emd.cycles.get_cycle_vector', 'emd.cycles.is_good', 'emd.support.ensure_2d', 'emd.utils.wrap_phase (entry guard)']
BOUNDS = {
    'quick': 'N <= 6 symbolic real phases in [0,2pi) per column (ties allowed), 1 column for N<=6 and 2 columns for N=3; '
             'phase_step symbolic in (0,2pi); all-cycles and good-cycles modes; no mask, or an all-True mask vector shared by the columns',
    'thorough': 'N <= 8 (1 column), N <= 4 (2 columns); phase_step symbolic in (0,2pi); both modes',
}
OUTSIDE = 'longer series, float rounding of the phase differences, masks (C13)'
ASSUMPTIONS = ['input phases are already wrapped into [0,2pi) (the property quantifies over wrapped phase)']
REQUIRED_CLASSES = ['has-wrap', 'no-wrap', 'wrap-at-last-sample', 'wrap-at-first-sample', 'all-true-mask']
EXPECTED_LABELS = ['never-raises', 'labels-consecutive-contiguous', 'no-internal-wrap', 'runs-delimited-by-wraps',
                   'all-samples-covered', 'wrap-free-gives-no-cycles', 'shape']
BUDGET_S = {'quick': 120, 'thorough': 900}

TWO_PI = 2 * math.pi


def configs(tier):
    out = []
    if tier == 'quick':
        for n in (2, 3, 4, 5, 6):
            for good in (False, True):
                out.append(("N%d-%s-1col" % (n, 'good' if good else 'all'), {'N': n, 'good': good, 'ncol': 1}))
        out.append(("N3-all-2col", {'N': 3, 'good': False, 'ncol': 2}))
        # a validity mask that masks nothing (one vector shared by all columns) changes nothing
        out.append(("N3-all-2col-truemask", {'N': 3, 'good': False, 'ncol': 2, 'mask': True}))
        out.append(("N4-good-1col-truemask", {'N': 4, 'good': True, 'ncol': 1, 'mask': True}))
    else:
        for n in (2, 3, 4, 5, 6, 7, 8):
            for good in (False, True):
                out.append(("N%d-%s-1col" % (n, 'good' if good else 'all'), {'N': n, 'good': good, 'ncol': 1}))
        for n in (3, 4):
            for good in (False, True):
                out.append(("N%d-%s-2col" % (n, 'good' if good else 'all'), {'N': n, 'good': good, 'ncol': 2}))
                out.append(("N%d-%s-2col-truemask" % (n, 'good' if good else 'all'), {'N': n, 'good': good, 'ncol': 2, 'mask': True}))
    return out


def harness(h):
    N, good, ncol = h.params['N'], h.params['good'], h.params['ncol']
    cols = [h.reals('p%d' % c, N, lo=0, hi=TWO_PI, hi_open=True) for c in range(ncol)]
    step = h.real('step', lo=0, hi=TWO_PI, lo_open=True, hi_open=True)
    if ncol == 1:
        phase = cols[0]
    else:
        phase = np.stack(cols, axis=1)
    try:
        if h.params.get('mask'):
            h.note('all-true-mask')
            cv = emd.cycles.get_cycle_vector(phase, return_good=good, phase_step=step, mask=np.ones(N, dtype=bool))
        else:
            cv = emd.cycles.get_cycle_vector(phase, return_good=good, phase_step=step)
    except Exception as e:
        h.fail('never-raises', "%s: %s" % (type(e).__name__, e))
        return
    h.check(True, 'never-raises')
    h.check(isinstance(cv, np.ndarray) and cv.shape == (N, ncol), 'shape', getattr(cv, 'shape', None))
    if not (isinstance(cv, np.ndarray) and cv.shape == (N, ncol)):
        return
    h.observe('cycle_vector', cv)
    for c in range(ncol):
        p = cols[c]
        L = [int(v) for v in cv[:, c]]
        # wrap positions recomputed from the phase: w[i] <=> wrap between sample i and i+1
        w = [bool(abs(p[i + 1] - p[i]) > step) for i in range(N - 1)]
        anywrap = any(w)
        h.note('has-wrap' if anywrap else 'no-wrap')
        if N >= 2 and w[-1]:
            h.note('wrap-at-last-sample')
        if N >= 2 and w[0]:
            h.note('wrap-at-first-sample')
        # labels are 0..K-1 in temporal order, each one contiguous run
        ok = True
        nxt = 0
        prev = None
        for v in L:
            if v != prev and v != -1:
                if v != nxt:
                    ok = False
                nxt += 1
            if v < -1:
                ok = False
            prev = v
        h.check(ok, 'labels-consecutive-contiguous', L)
        # no labelled run contains a wrap strictly inside
        h.check(all(not (L[i] != -1 and L[i] == L[i + 1] and w[i]) for i in range(N - 1)), 'no-internal-wrap', (L, w))
        # every run starts and ends at a wrap or at an end of the recording
        ok = True
        for i in range(N):
            if L[i] == -1:
                continue
            if (i == 0 or L[i - 1] != L[i]) and not (i == 0 or w[i - 1]):
                ok = False
            if (i == N - 1 or L[i + 1] != L[i]) and not (i == N - 1 or w[i]):
                ok = False
        h.check(ok, 'runs-delimited-by-wraps', (L, w))
        if not good:
            if anywrap:
                h.check(all(v != -1 for v in L), 'all-samples-covered', (L, w))
        if not anywrap:
            h.check(all(v == -1 for v in L), 'wrap-free-gives-no-cycles', (L, w))
