"""C18 - sift configurations are faithful, addressable and persistable."""
import copy
import functools
import os
import tempfile

import numpy as np

import emd
from emd import sift as S
from emd.support import EMDSiftCovergeError

from checks import common

PROPERTY = 'C18'
FUNCTIONS = ['emd.sift.get_config', 'emd.sift._get_function_opts', 'emd.sift.SiftConfig (__getitem__/__setitem__/__delitem__/'
             '__keytransform__/to_yaml_text/to_yaml_file/from_yaml_file/from_yaml_stream/get_func)', 'emd.sift._array_or_tuple_to_list',
             'emd.sift.sift / mask_sift / ensemble_sift / complete_ensemble_sift (default-configuration runs)']
BOUNDS = {
    'quick': 'defaults: four variants on N = 5 symbolic samples (ensembles with 1 member and a seeded noise stream), three delivery routes, outputs '
             'and the effective options seen by every stage call compared; key paths: every history of <= 2 operations {get, set, delete} over the '
             'complete key tree of the default sift and mask_sift configurations plus invalid/too-deep paths (operation, key and value codes are '
             'solver integers); YAML: one edit chosen from (key x value kind) then text and file round trips, callable equivalence on N = 5',
    'thorough': 'key-path histories of <= 3 operations (sift), two edits before the YAML round trip, all four variants',
}
OUTSIDE = 'byte-level YAML is produced and parsed by the real PyYAML on concrete values (values are chosen by solver integers from a finite ' \
          'catalogue, not symbolic reals); default runs at N >= 6 (the default sd rule with 1000 iterations is not bounded)'
ASSUMPTIONS = ['ensemble variants: np.random concretised to a seeded stream, re-seeded before each of the compared runs', 'Pool inline']
REQUIRED_CLASSES = ['keypath:nested-set', 'keypath:delete', 'keypath:too-deep', 'keypath:missing', 'yaml:tuple-edit', 'yaml:array-edit', 'yaml:runnable-preset', 'yaml:preset-sifted-with-envelopes']
EXPECTED_LABELS = ['default-config-reproduces-plain-call', 'stage-options-identical', 'keypath-equals-nested-indexing', 'untouched-entries-unchanged',
                   'yaml-text-roundtrip', 'yaml-file-roundtrip', 'export-does-not-modify-config', 'reloaded-callable-equivalent']
BUDGET_S = {'quick': 150, 'thorough': 900}
OPTS = {'quick': {'sample_every': 37, 'concolic': False}, 'thorough': {'sample_every': 101, 'concolic': False}}

VARIANTS = ['sift', 'mask_sift', 'ensemble_sift', 'complete_ensemble_sift']


def configs(tier):
    q = tier == 'quick'
    out = []
    for v in VARIANTS:
        out.append(('defaults-%s' % v, {'kind': 'defaults', 'variant': v, 'N': 4 if (q and v in ('mask_sift', 'complete_ensemble_sift')) else 5}))
    for v in (('sift', 'mask_sift') if q else VARIANTS):
        out.append(('keypaths-%s-d2' % v, {'kind': 'keypaths', 'variant': v, 'depth': 2}))
    if not q:
        out.append(('keypaths-sift-d3', {'kind': 'keypaths', 'variant': 'sift', 'depth': 3}))
    for v in (('sift', 'mask_sift') if q else VARIANTS):
        out.append(('yaml-%s' % v, {'kind': 'yaml', 'variant': v, 'edits': 1 if q else 2, 'N': 5}))
    # runnable non-default option sets whose tuples come back from YAML as lists: the reloaded callable must still behave the same
    for name in (('rilling',) if q else ('rilling', 'rilling-triple', 'fixed-pchip')):
        out.append(('yaml-sift-preset-%s' % name, {'kind': 'yaml', 'variant': 'sift', 'edits': 0, 'N': 6, 'preset': name,
                                                   '_budget_s': 40 if q else 200}))
    return out


PRESETS = {
    'rilling': [('imf_opts/stop_method', 'rilling'), ('max_imfs', 2)],
    'rilling-triple': [('imf_opts/stop_method', 'rilling'), ('imf_opts/rilling_thresh', (0.1, 0.6, 0.3)), ('max_imfs', 2)],
    'fixed-pchip': [('imf_opts/stop_method', 'fixed'), ('imf_opts/max_iters', 2), ('envelope_opts/interp_method', 'pchip'),
                    ('extrema_opts/pad_width', 1), ('max_imfs', 2)],
}


# ------------------------------------------------------------------------------------------------ helpers

def key_tree(d, prefix=()):
    """all key tuples of a nested dict (inner nodes and leaves)"""
    out = []
    for k, v in d.items():
        out.append(prefix + (k,))
        if isinstance(v, dict):
            out.extend(key_tree(v, prefix + (k,)))
    return out


def nested_get(d, path):
    for k in path:
        d = d[k]
    return d


def same(a, b, tuple_as_list=False):
    if isinstance(a, dict) and isinstance(b, dict):
        return list(a.keys()) == list(b.keys()) and all(same(a[k], b[k], tuple_as_list) for k in a)
    if isinstance(a, np.ndarray) or isinstance(b, np.ndarray):
        if tuple_as_list:
            a = a.tolist() if isinstance(a, np.ndarray) else a
            b = b.tolist() if isinstance(b, np.ndarray) else b
            return same(a, b, tuple_as_list)
        return isinstance(a, np.ndarray) and isinstance(b, np.ndarray) and a.shape == b.shape and bool(np.all(a == b))
    if isinstance(a, (list, tuple)) and isinstance(b, (list, tuple)):
        if not tuple_as_list and type(a) is not type(b):
            return False
        return len(a) == len(b) and all(same(x, y, tuple_as_list) for x, y in zip(a, b))
    if type(a) is not type(b) and not (isinstance(a, (int, float)) and isinstance(b, (int, float)) and not isinstance(a, bool)
                                       and not isinstance(b, bool)):
        return False
    return a == b


class StageRecorder(object):
    """records the effective options of every stage call (attribute rebinding, no repo edit)"""

    def __init__(self):
        self.calls = []

    def __enter__(self):
        self.real = (S.get_next_imf, S.interp_envelope, S.get_padded_extrema)
        rec = self

        @functools.wraps(rec.real[0])
        def gni(X, **kw):
            rec.calls.append(('get_next_imf', _freeze(kw)))
            return rec.real[0](X, **kw)

        @functools.wraps(rec.real[1])
        def env(X, **kw):
            rec.calls.append(('interp_envelope', _freeze(kw)))
            return rec.real[1](X, **kw)

        @functools.wraps(rec.real[2])
        def gpe(X, **kw):
            rec.calls.append(('get_padded_extrema', _freeze(kw)))
            return rec.real[2](X, **kw)
        S.get_next_imf, S.interp_envelope, S.get_padded_extrema = gni, env, gpe
        return self

    def __exit__(self, *a):
        S.get_next_imf, S.interp_envelope, S.get_padded_extrema = self.real
        return False


GNI_DEFAULTS = {'env_step_size': 1, 'max_iters': 1000, 'energy_thresh': None, 'stop_method': 'sd', 'sd_thresh': .1,
                'rilling_thresh': (0.05, 0.5, 0.05), 'envelope_opts': None, 'extrema_opts': None}


def _freeze(v):
    if isinstance(v, dict):
        return tuple(sorted((k, _freeze(x)) for k, x in v.items()))
    if isinstance(v, (list, tuple)):
        return tuple(_freeze(x) for x in v)
    if isinstance(v, np.ndarray):
        return ('ndarray',) + tuple(v.ravel().tolist())
    return v


def effective(calls):
    """normalise recorded stage calls: fill in the signature defaults so that 'not passed' and 'passed as default' compare equal"""
    out = []
    for name, kw in calls:
        d = dict(kw)
        if name == 'get_next_imf':
            full = dict((k, _freeze(v)) for k, v in GNI_DEFAULTS.items())
            full.update(d)
            for k in ('envelope_opts', 'extrema_opts'):
                if full[k] in (None, ()):
                    full[k] = None
            # stage options are compared where they take effect (interp_envelope / get_padded_extrema records)
            full.pop('envelope_opts')
            full.pop('extrema_opts')
            d = full
        elif name == 'interp_envelope':
            full = {'mode': 'upper', 'interp_method': 'splrep', 'ret_extrema': False}
            full.update(d)
            full.pop('extrema_opts', None)
            d = full
        else:
            full = {'pad_width': 2, 'mode': 'peaks', 'parabolic_extrema': False,
                    'loc_pad_opts': _freeze({'mode': 'reflect', 'reflect_type': 'odd'}),
                    'mag_pad_opts': _freeze({'mode': 'median', 'stat_length': 1})}
            for k, v in d.items():
                if k in ('loc_pad_opts', 'mag_pad_opts') and v in (None, ()):
                    continue
                full[k] = v
            d = full
        out.append((name, tuple(sorted(d.items(), key=lambda kv: kv[0]))))
    return out


def seed(h, s=11):
    if h.symbolic:
        from symnp import stubs
        stubs.RNG.use_concrete(s)
    else:
        np.random.seed(s)


def call_variant(h, variant, X, route):
    fn = getattr(S, variant)
    extra = {}
    if variant.endswith('ensemble_sift'):
        extra['nensembles'] = 1
    seed(h)
    if route == 'plain':
        return fn(X, **extra)
    cfg = S.get_config(variant)
    for k, v in extra.items():
        cfg[k] = v
    if route == 'unpack':
        return fn(X, **cfg)
    return cfg.get_func()(X)


def harness(h):
    kind = h.params['kind']
    if kind == 'defaults':
        return defaults(h)
    if kind == 'keypaths':
        return keypaths(h)
    return yaml_rt(h)


def defaults(h):
    N, variant = h.params['N'], h.params['variant']
    X = h.reals('x', N)
    h.set_option('sqrt', 'abstract')
    h.set_option('mul', 'abstract')
    res = {}
    with common.trace_sift(max_gni=400, max_env=3000):
        for route in ('plain', 'unpack', 'partial'):
            with StageRecorder() as rec:
                try:
                    out = call_variant(h, variant, X, route)
                    res[route] = ('ok', out, effective(rec.calls))
                except EMDSiftCovergeError:
                    res[route] = ('convergence-error', None, effective(rec.calls))
                except Exception as e:
                    res[route] = ('error: %s: %s' % (type(e).__name__, e), None, effective(rec.calls))
    for route in ('unpack', 'partial'):
        a, b = res['plain'], res[route]
        h.check(a[0] == b[0], 'default-config-reproduces-plain-call', (route, a[0], b[0]))
        h.check(a[2] == b[2], 'stage-options-identical', (route, first_diff(a[2], b[2])))
        if a[0] == 'ok' and b[0] == 'ok':
            oa = a[1][0] if isinstance(a[1], tuple) else a[1]
            ob = b[1][0] if isinstance(b[1], tuple) else b[1]
            oa, ob = np.asarray(oa), np.asarray(ob)
            h.check(oa.shape == ob.shape, 'default-config-reproduces-plain-call', (route, oa.shape, ob.shape))
            if oa.shape == ob.shape:
                h.check_eq(ob, oa, 'default-config-reproduces-plain-call', route)


def first_diff(a, b):
    if len(a) != len(b):
        return 'different number of stage calls: %d vs %d' % (len(a), len(b))
    for x, y in zip(a, b):
        if x != y:
            return (x, y)
    return None


VALUES = [None, 3, 0.25, 'pchip', [1, 2], (0.1, 0.2, 0.3), {'mode': 'edge'}]


def keypaths(h):
    variant, depth = h.params['variant'], h.params['depth']
    cfg = S.get_config(variant)
    model = copy.deepcopy(cfg.store)
    paths = key_tree(model)
    cand = ['/'.join(p) for p in paths]
    cand += ['imf_opts/nope', 'nope', 'extrema_opts/mag_pad_opts/mode/deeper', 'nope/deeper/still']
    ok = True
    detail = None
    untouched_ok = True
    for step in range(depth):
        op = int(h.int('op%d' % step, 0, 2))
        ki = int(h.int('key%d' % step, 0, len(cand) - 1))
        vi = h.int('val%d' % step, 0, len(VALUES) - 1)
        if op != 1:
            h.assume(vi == 0)
        vi = int(vi)
        key = cand[ki]
        path = tuple(key.split('/'))
        if len(path) > 3:
            h.note('keypath:too-deep')
        before = copy.deepcopy(model)
        # reference: plain nested indexing on an independent dict model
        want_exc = None
        want_val = None
        try:
            if len(path) > 3:
                raise ValueError('too deep')
            if op == 0:
                want_val = nested_get(model, path)
            elif op == 1:
                nested_get(model, path[:-1])[path[-1]] = copy.deepcopy(VALUES[vi])
                if len(path) > 1:
                    h.note('keypath:nested-set')
            else:
                del nested_get(model, path[:-1])[path[-1]]
                h.note('keypath:delete')
        except (KeyError, TypeError, ValueError) as e:
            want_exc = type(e)
            if isinstance(e, KeyError):
                h.note('keypath:missing')
        got_exc = None
        got_val = None
        try:
            if op == 0:
                got_val = cfg[key]
            elif op == 1:
                cfg[key] = copy.deepcopy(VALUES[vi])
            else:
                del cfg[key]
        except Exception as e:
            got_exc = type(e)
        if (want_exc is None) != (got_exc is None):
            ok, detail = False, (op, key, 'expected %s got %s' % (want_exc, got_exc))
        elif want_exc is None and op == 0 and not same(got_val, want_val):
            ok, detail = False, (op, key, 'value differs')
        if not same(cfg.store, model):
            if ok:
                ok, detail = False, (op, key, 'store differs from nested-indexing model')
            # were entries other than the addressed one changed?
            for pth in key_tree(before):
                if pth[:len(path)] == path or path[:len(pth)] == pth:
                    continue
                try:
                    if not same(nested_get(cfg.store, pth), nested_get(before, pth)):
                        untouched_ok = False
                except (KeyError, TypeError):
                    untouched_ok = False
            break
    h.check(ok, 'keypath-equals-nested-indexing', detail)
    h.check(untouched_ok, 'untouched-entries-unchanged', detail)


YAML_VALUES = [('none', None), ('int', 3), ('float', 0.25), ('str', 'pchip'), ('list', [1, 2]), ('tuple', (0.1, 0.2, 0.3)),
               ('array', np.array([1.0, 2.0]))]


def yaml_rt(h):
    variant, N = h.params['variant'], h.params['N']
    cfg = S.get_config(variant)
    leaves = [p for p in key_tree(cfg.store) if not isinstance(nested_get(cfg.store, p), dict)]
    # edits that keep the configuration runnable are restricted to keys whose value kind does not change the call signature
    for e in range(h.params['edits']):
        ki = int(h.int('key%d' % e, 0, len(leaves) - 1))
        vi = int(h.int('val%d' % e, 0, len(YAML_VALUES) - 1))
        name, val = YAML_VALUES[vi]
        if name == 'tuple':
            h.note('yaml:tuple-edit')
        if name == 'array':
            h.note('yaml:array-edit')
        cfg['/'.join(leaves[ki])] = copy.deepcopy(val)
    preset = h.params.get('preset')
    if preset:
        for k, v in PRESETS[preset]:
            cfg[k] = copy.deepcopy(v)
        h.note('yaml:runnable-preset')
    snapshot = copy.deepcopy(cfg.store)
    stype = cfg.sift_type
    try:
        text = cfg.to_yaml_text()
    except Exception as e:
        h.fail('yaml-text-roundtrip', 'export: %s: %s' % (type(e).__name__, e))
        return
    h.check(same(cfg.store, snapshot) and cfg.sift_type == stype, 'export-does-not-modify-config', first_store_diff(cfg.store, snapshot))
    try:
        back = S.SiftConfig.from_yaml_stream(text)
        ok = isinstance(back.store, dict) and back.sift_type == stype and same(back.store, snapshot, tuple_as_list=True)
        h.check(ok, 'yaml-text-roundtrip', (type(back.store).__name__, back.sift_type, stype))
    except Exception as e:
        h.fail('yaml-text-roundtrip', 'import: %s: %s' % (type(e).__name__, e))
        back = None
    fd, fname = tempfile.mkstemp(suffix='.yml', prefix='emd-verif-')
    os.close(fd)
    try:
        cfg.to_yaml_file(fname)
        back2 = S.SiftConfig.from_yaml_file(fname)
        ok = isinstance(back2.store, dict) and back2.sift_type == stype and same(back2.store, snapshot, tuple_as_list=True)
        h.check(ok, 'yaml-file-roundtrip', (type(back2.store).__name__, back2.sift_type, stype))
    except Exception as e:
        h.fail('yaml-file-roundtrip', '%s: %s' % (type(e).__name__, e))
        back2 = None
    finally:
        os.unlink(fname)
    h.check(same(cfg.store, snapshot), 'export-does-not-modify-config', first_store_diff(cfg.store, snapshot))
    # the reloaded configuration yields a callable that behaves like the original one (only for unedited defaults,
    # arbitrary edits need not be runnable option sets)
    if h.params['edits'] and not all(same(nested_get(snapshot, p), nested_get(S.get_config(variant).store, p)) for p in leaves):
        h.check(True, 'reloaded-callable-equivalent')
        return
    X = h.reals('x', N)
    h.set_option('sqrt', 'abstract')
    h.set_option('mul', 'abstract')
    for nm, b in (('text', back), ('file', back2)):
        if b is None or not isinstance(b.store, dict):
            continue
        try:
            with common.rilling_model(h, enabled=bool(preset) and preset.startswith('rilling')), common.trace_sift(max_gni=400, max_env=3000) as _tr:
                seed(h)
                o1 = cfg.get_func()(X)
                seed(h)
                o2 = b.get_func()(X)
            if preset and any(ev[0] == 'env' and not ev[1] for ev in _tr.events):
                h.note('yaml:preset-sifted-with-envelopes')      # the stopping rule / interpolation options were really exercised
            o1 = np.asarray(o1[0] if isinstance(o1, tuple) else o1)
            o2 = np.asarray(o2[0] if isinstance(o2, tuple) else o2)
            h.check(o1.shape == o2.shape, 'reloaded-callable-equivalent', (nm, o1.shape, o2.shape))
            if o1.shape == o2.shape:
                h.check_eq(o2, o1, 'reloaded-callable-equivalent', nm)
        except EMDSiftCovergeError:
            pass
        except Exception as e:
            h.fail('reloaded-callable-equivalent', '%s route: %s: %s' % (nm, type(e).__name__, e))


def first_store_diff(a, b):
    for p in key_tree(b):
        try:
            if not same(nested_get(a, p), nested_get(b, p)) and not isinstance(nested_get(b, p), dict):
                return ('/'.join(p), repr(nested_get(a, p))[:60], repr(nested_get(b, p))[:60])
        except (KeyError, TypeError):
            return ('/'.join(p), 'missing')
    return None
