"""C14 - per-cycle statistics, projection to samples, phase alignment and phase binning use exactly each cycle's samples."""
import math

import numpy as np

import emd

PROPERTY = 'C14'
FUNCTIONS = ['emd.cycles.get_cycle_stat', 'emd._cycles_support.get_cycle_stat_from_samples / map_cycle_to_samples / '
             'project_cycles_to_samples', 'emd.cycles.phase_align', 'emd.cycles.bin_by_phase',
             'emd.cycles._ensure_cycle_inputs / IterateCycles', 'emd.spectra.define_hist_bins',
             'emd.support.ensure_vector / ensure_equal_dims']
BOUNDS = {
    'quick': 'get_cycle_stat: every label vector over N <= 5 samples with labels 0..K-1 in temporal order and -1 gaps anywhere, also inside a cycle '
             '(symbolic gap/break flags), symbolic real values, functions {mean,max,sum,len,first,last-first}, both output modes; one fixed labelling of 29 samples (3 cycles, gaps between and inside) for order-sensitive functions; '
             'phase_align (linear kind): two cycles of 2-3 samples, symbolic strictly increasing phases, x = a*phase+b with '
             'a,b from a small concrete grid, npoints in {2,4}; bin_by_phase: N <= 3 symbolic phases and values, nbins in {2,3,4}',
    'thorough': 'get_cycle_stat N <= 6; phase_align cycles of up to 4 samples, npoints {2,4,6}; bin_by_phase N <= 4, nbins 2..5',
}
OUTSIDE = 'long cycles, non-linear interpolation kinds and non-linear functions of phase (interpolation error), weights, ' \
          'variance outputs of bin_by_phase, augmented mode'
ASSUMPTIONS = ['label vectors: labels 0..K-1 in temporal order, every label present, arbitrary -1 gaps (also interrupting a cycle); interleaved/revisited labels are outside',
               'interp1d(linear, extrapolate) modelled as piecewise-linear interpolation (validated by concrete replays)']
REQUIRED_CLASSES = ['stat:has-gap', 'stat:two-cycles', 'stat:cycle-resumes-after-gap', 'stat:integer-values', 'stat:long-labelling', 'align:custom-cycles', 'align:run', 'bin:empty-bin', 'bin:last-bin-used']
EXPECTED_LABELS = ['stat-never-raises', 'stat-per-cycle', 'stat-samples-projection', 'align-never-raises', 'align-linear-exact', 'align-through-samples',
                   'bin-never-raises', 'bin-means']
BUDGET_S = {'quick': 150, 'thorough': 900}
TWO_PI = 2 * math.pi

FUNCS = {
    'mean': (np.mean, lambda v: sum(v[1:], v[0]) / len(v)),
    'max': (np.max, None),
    'sum': (np.sum, lambda v: sum(v[1:], v[0])),
    'len': (len, lambda v: len(v)),
    'first': (lambda x: x[0], lambda v: v[0]),
    'range': (lambda x: x[-1] - x[0], lambda v: v[-1] - v[0]),
}


LONG_LABELS = [-1] * 3 + [0] * 5 + [-1] + [0] * 4 + [-1] * 2 + [1] * 8 + [2] * 6


def _max(v):
    m = v[0]
    for x in v[1:]:
        if bool(x > m):
            m = x
    return m


def configs(tier):
    out = []
    ns = (3, 4, 5) if tier == 'quick' else (4, 5, 6)
    for n in ns:
        for fn in (('mean', 'len') if n == max(ns) else ('mean', 'max', 'sum', 'len', 'first', 'range')):
            out.append(('stat-N%d-%s' % (n, fn), {'kind': 'stat', 'N': n, 'func': fn}))
    # integer-dtype values: the statistic is the function's value (a mean of counts is not a count)
    for n in ((4,) if tier == 'quick' else (4, 5, 6)):
        out.append(('stat-N%d-mean-int-values' % n, {'kind': 'stat', 'N': n, 'func': 'mean', 'int_values': True}))
    # a long fixed labelling (29 samples, gaps between and inside cycles): the samples must reach the function in time order
    for fn in (('first', 'range') if tier == 'quick' else ('first', 'range', 'mean', 'max')):
        out.append(('stat-long-fixed-labels-%s' % fn, {'kind': 'stat', 'N': 29, 'func': fn, 'fixed_labels': True}))
    lens = [(2, 2), (3, 2), (2, 3)] if tier == 'quick' else [(2, 2), (3, 2), (2, 3), (3, 3), (4, 2)]
    for la, lb in lens:
        for npnt in ((2, 4) if tier == 'quick' else (2, 4, 6)):
            out.append(('align-%d+%d-np%d' % (la, lb, npnt), {'kind': 'align', 'lens': (la, lb), 'npoints': npnt}))
    # user-supplied cycles that do not start at phase 0 (trough-to-trough labelling): at a grid point that coincides with a
    # sample's phase the aligned value is that sample's value, for ANY quantity (interpolation passes through its data)
    for ln in ((4,) if tier == 'quick' else (4, 5)):
        out.append(('align-custom-cycle-len%d-np4' % ln, {'kind': 'align-custom', 'len': ln, 'npoints': 4}))
    for n in ((2, 3) if tier == 'quick' else (2, 3, 4)):
        for nb in ((2, 3, 4) if tier == 'quick' else (2, 3, 4, 5)):
            out.append(('bin-N%d-nb%d' % (n, nb), {'kind': 'bin', 'N': n, 'nbins': nb}))
    return out


def label_vector(h, N):
    """label vectors 0..K-1 in temporal order with -1 gaps anywhere - also inside a cycle (a cycle may resume after a gap)"""
    g = h.bools('gap', N)
    b = h.bools('brk', N)
    r = h.bools('res', N)
    labels = []
    cur = -1
    prev_gap = True
    for i in range(N):
        if bool(g[i]):
            h.assume(~b[i] if h.symbolic else not b[i])
            h.assume(~r[i] if h.symbolic else not r[i])
            labels.append(-1)
            prev_gap = True
        else:
            if prev_gap:
                h.assume(~b[i] if h.symbolic else not b[i])
                if cur >= 0 and bool(r[i]):
                    h.note('stat:cycle-resumes-after-gap')      # same cycle continues after an interior gap
                else:
                    if cur < 0:
                        h.assume(~r[i] if h.symbolic else not r[i])
                    cur += 1
            else:
                h.assume(~r[i] if h.symbolic else not r[i])
                if bool(b[i]):
                    cur += 1
            labels.append(cur)
            prev_gap = False
    return labels, cur + 1


def harness(h):
    kind = h.params['kind']
    if kind == 'stat':
        N = h.params['N']
        if h.params.get('fixed_labels'):
            labels, ncyc = list(LONG_LABELS), 3
            h.note('stat:long-labelling')
        else:
            labels, ncyc = label_vector(h, N)
        if ncyc == 0:
            return
        if h.params.get('int_values'):
            vals = h.int_array('x', N, -4, 4)
            h.note('stat:integer-values')
        else:
            vals = h.reals('x', N)
        if -1 in labels:
            h.note('stat:has-gap')
        if ncyc >= 2:
            h.note('stat:two-cycles')
        func, ref = FUNCS[h.params['func']]
        if ref is None:
            ref = _max
        cv = np.array(labels)
        try:
            per = emd.cycles.get_cycle_stat(cv, vals, func=func)
            smp = emd.cycles.get_cycle_stat(cv, vals, out='samples', func=func)
        except Exception as e:
            h.fail('stat-never-raises', '%s: %s' % (type(e).__name__, e))
            return
        h.check(True, 'stat-never-raises')
        want = [ref([vals[i] for i in range(N) if labels[i] == c]) for c in range(ncyc)]
        h.observe('per_cycle', np.asarray(per))
        h.check_eq(per, np.array(want, dtype=object), 'stat-per-cycle', (labels,))
        want_s = [float('nan') if labels[i] == -1 else want[labels[i]] for i in range(N)]
        h.check_eq(smp, np.array(want_s, dtype=object), 'stat-samples-projection', (labels,))
    elif kind == 'align-custom':
        L, npnt = h.params['len'], h.params['npoints']
        N = L + 2
        p = h.reals('p', N, lo=0, hi=TWO_PI, hi_open=True)
        x = h.reals('x', N)
        # one labelled cycle (samples 1..L) that wraps inside: phases ascend, wrap once, ascend again; all distinct
        wrap_at = h.int('wrap_at', 2, L - 1)
        wa = int(wrap_at)
        for i in range(1, L):
            if i == wa:
                h.assume(p[i] - p[i + 1] > 1.5 * math.pi)
            else:
                h.assume(p[i + 1] > p[i])
        h.assume(p[L] < p[1])          # the part after the wrap stays below the part before it
        cyc = np.array([-1] + [0] * L + [-1])
        _, centres = emd.spectra.define_hist_bins(0, TWO_PI, npnt)
        from symnp.core import lift
        k = int(h.int('grid_point', 0, npnt - 1))
        j = int(h.int('sample', 1, L))
        ck = lift(float(centres[k])) if h.symbolic else float(centres[k])
        h.assume(p[j] == ck)
        h.note('align:custom-cycles')
        try:
            avg, cen = emd.cycles.phase_align(p, x, cycles=cyc, npoints=npnt)
        except Exception as e:
            h.fail('align-never-raises', 'custom cycles: %s: %s' % (type(e).__name__, e))
            return
        h.check(True, 'align-never-raises')
        h.check_eq(np.asarray(avg)[k, 0], x[j], 'align-through-samples', (wa, k, j))
    elif kind == 'align':
        la, lb = h.params['lens']
        npnt = h.params['npoints']
        N = la + lb
        p = h.reals('p', N, lo=0, hi=TWO_PI, hi_open=True)
        a, b = h.choice('ab', [(2, -1), (-0.5, 3)])
        # two cycles: strictly increasing phase inside each, one wrap between them
        for i in range(N - 1):
            if i == la - 1:
                h.assume(p[i] - p[i + 1] > 1.5 * math.pi)
            else:
                h.assume(p[i + 1] > p[i])
                h.assume(p[i + 1] - p[i] < 1.5 * math.pi)
        x = p * a + b
        h.note('align:run')
        try:
            avg, centres = emd.cycles.phase_align(p, x, npoints=npnt)
        except Exception as e:
            h.fail('align-never-raises', '%s: %s' % (type(e).__name__, e))
            return
        h.check(True, 'align-never-raises')
        h.observe('aligned', np.asarray(avg))
        want = np.empty((npnt, 2), dtype=object)
        for k in range(npnt):
            ck = float(centres[k])
            if h.symbolic:
                from symnp.core import lift
                ck = lift(ck)      # exact rational value of the double: `a*centre+b` must not be rounded on the oracle side
            want[k, 0] = want[k, 1] = ck * a + b
        h.check_eq(avg, want, 'align-linear-exact', (la, lb, npnt))
    else:
        N, nb = h.params['N'], h.params['nbins']
        p = h.reals('p', N, lo=0, hi=TWO_PI, hi_open=True)
        x = h.reals('x', N)
        try:
            avg, var, centres = emd.cycles.bin_by_phase(p, x, nbins=nb)
        except Exception as e:
            h.fail('bin-never-raises', '%s: %s' % (type(e).__name__, e))
            return
        h.check(True, 'bin-never-raises')
        edges = np.linspace(0, TWO_PI, nb + 1)
        want = []
        for k in range(nb):
            members = [x[i] for i in range(N) if bool(p[i] >= edges[k]) and bool(p[i] < edges[k + 1])]
            if members:
                want.append(sum(members[1:], members[0]) / len(members))
                if k == nb - 1:
                    h.note('bin:last-bin-used')
            else:
                want.append(float('nan'))
                h.note('bin:empty-bin')
        h.observe('bin_avg', np.asarray(avg))
        h.check_eq(avg, np.array(want, dtype=object), 'bin-means', None)
