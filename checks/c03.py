"""C03 - IMFs are peeled one at a time from the running residual; caps are respected; results are finite arrays."""
import math

import numpy as np

import emd
from emd import sift as S
from emd.support import EMDSiftCovergeError

from checks import common

PROPERTY = 'C03'
FUNCTIONS = ['emd.sift.sift', 'emd.sift.mask_sift', 'emd.sift.get_next_imf', 'emd.sift.get_next_imf_mask', 'emd.sift.ensemble_sift',
             'emd.sift._sift_with_noise', 'emd.sift.complete_ensemble_sift', 'emd.sift.sift_second_layer',
             'emd.sift.mask_sift_second_layer', 'emd.support.ensure_1d_with_singleton / ensure_2d']
BOUNDS = {
    'quick': 'N = 6 symbolic real samples; peeling: classic sift with stop in {fixed(1), fixed(2), rilling}, caps k = 1..K+2, and masked sift '
             '(explicit mask frequencies, absolute amplitude, 2 phases, fixed(1)); caps 1..3 for all six variants (ensembles: 1-2 members, '
             'noise concretised to a seeded stream; second layer: 2 first-level columns of N = 5..6 samples)',
    'thorough': 'same at N <= 7 (classic), sd stop, masked sift with 4 phases and two frequency ladders, caps with 2 ensemble members',
}
OUTSIDE = 'longer signals; symbolic noise in the cap clause (noise is a fixed seeded draw there; C08 treats noise symbolically); ' \
          'ensemble members that return different numbers of IMFs (the ensemble then raises, nothing is returned)'
ASSUMPTIONS = ['multiprocessing.Pool modelled as an inline order-preserving starmap', 'rilling_stop replaced by its formula (C04 unit clause)',
               'cap clause: np.random concretised to the stream after np.random.seed(7) (same stream in the replay)']
REQUIRED_CLASSES = ['peel:two-imfs', 'peel-mask:two-imfs', 'cap:hit', 'cap:not-hit', 'peel:integer-input']
EXPECTED_LABELS = ['peel-never-raises', 'capped-equals-prefix', 'column-is-next-imf-of-residual', 'mask-capped-equals-prefix',
                   'mask-column-is-next-imf-of-residual', 'returns-array', 'cap-respected', 'finite']
BUDGET_S = {'quick': 170, 'thorough': 900}
OPTS = {'quick': {'sample_every': 9}, 'thorough': {'sample_every': 9, 'timeout_ms': 20000}}


def configs(tier):
    q = tier == 'quick'
    out = []
    for stop in (('fixed1', 'fixed2', 'rilling') if q else ('fixed1', 'fixed2', 'rilling', 'sd')):
        out.append(('peel-sift-N6-%s' % stop, {'kind': 'peel', 'N': 6, 'stop': stop, 'step': '1', 'interp': 'splrep', 'w': 2}))
    if not q:
        out.append(('peel-sift-N7-fixed1', {'kind': 'peel', 'N': 7, 'stop': 'fixed1', 'step': '1', 'interp': 'splrep', 'w': 2}))
        out.append(('peel-sift-N6-fixed1-pchip', {'kind': 'peel', 'N': 6, 'stop': 'fixed1', 'step': '1/2', 'interp': 'pchip', 'w': 1}))
    # integer-dtype recordings (raw ADC counts): the components are real-valued, nothing may be cast back to the input dtype
    out.append(('peel-sift-N6-fixed1-int-input', {'kind': 'peel', 'N': 6, 'stop': 'fixed1', 'step': '1', 'interp': 'splrep', 'w': 2, 'int_input': True}))
    out.append(('peel-mask-N6-list', {'kind': 'peelmask', 'N': 6, 'freqs': [0.3, 0.125, 0.05], 'nphases': 1 if q else 2}))
    if not q:
        out.append(('peel-mask-N6-float', {'kind': 'peelmask', 'N': 6, 'freqs': 0.25, 'nphases': 2}))
    for variant in ('sift', 'mask_sift', 'ensemble_sift', 'complete_ensemble_sift', 'sift_second_layer', 'mask_sift_second_layer'):
        for k in (1, 2, 3):
            n = 6
            p = {'kind': 'cap', 'variant': variant, 'k': k, 'N': n, 'nens': 1, 'nphases': 1 if q else 2}
            if variant.endswith('second_layer'):
                for symcol in (0, 1):
                    pp = dict(p)
                    pp['symcol'] = symcol
                    out.append(('cap-%s-k%d-symcol%d' % (variant, k, symcol), pp))
                continue
            if q and variant == 'complete_ensemble_sift' and k == 3:
                continue
            if variant == 'complete_ensemble_sift' and k >= 2:
                p['N'] = 5
                p['_budget_s'] = 30 if q else 300
            out.append(('cap-%s-k%d' % (variant, k), p))
            if not q and variant.endswith('ensemble_sift'):
                pp = dict(p)
                pp['nens'] = 2
                out.append(('cap-%s-k%d-2members' % (variant, k), pp))
    out.append(('second-layer-default-args', {'kind': 'sl-default', 'N': 5}))
    return out


CONCRETE_COL = [0.5, -1.0, 2.0, -0.25, 1.5, -0.75, 0.125, 1.0]


def two_columns(h, N, symcol=0):
    sym = h.reals('a', N)
    conc = np.array(CONCRETE_COL[:N])
    if h.symbolic:
        from symnp.stubs import as_obj
        conc = as_obj(conc)
    cols = [sym, conc] if symcol == 0 else [conc, sym]
    return np.stack(cols, axis=1)


def finite(h, arr, where):
    ok = True
    for v in np.asarray(arr, dtype=object).flat:
        if isinstance(v, (float, np.floating)) and not math.isfinite(v):
            ok = False
    h.check(ok, 'finite', where)


def harness(h):
    kind = h.params['kind']
    if kind == 'peel':
        return peel(h)
    if kind == 'peelmask':
        return peelmask(h)
    if kind == 'sl-default':
        N = h.params['N']
        IA = two_columns(h, N)
        try:
            out = S.sift_second_layer(IA)
        except EMDSiftCovergeError:
            return
        except Exception as e:
            h.fail('returns-array', 'sift_second_layer(IA) with default arguments: %s: %s' % (type(e).__name__, e))
            return
        out = np.asarray(out)
        h.check(out.ndim == 3 and out.shape[:2] == (N, 2), 'returns-array', out.shape)
        finite(h, out, 'second layer')
        # every first-level column is decomposed: its second-level components sum back to it (classic sift is additive)
        ok_cols = all(h_col_nonzero(out[:, j, :]) or col_is_zero(IA[:, j]) for j in range(2))
        h.check(ok_cols, 'returns-array', 'a first-level column was not decomposed')
        return
    return cap(h)


def h_col_nonzero(block):
    return any(not (isinstance(v, (int, float)) and v == 0) for v in np.asarray(block, dtype=object).flat)


def col_is_zero(col):
    return all(bool(v == 0) for v in col)


def peel(h):
    N = h.params['N']
    if h.params.get('int_input'):
        X = h.int_array('x', N, -8, 8)
        h.note('peel:integer-input')
    else:
        X = h.reals('x', N)
    imf_opts, env_opts, ext_opts = common.sift_options(h, h.params)
    kw = dict(imf_opts=imf_opts, envelope_opts=env_opts, extrema_opts=ext_opts)
    with common.rilling_model(h, enabled=h.params['stop'] == 'rilling'), common.trace_sift(max_gni=60, max_env=400):
        try:
            full = np.asarray(S.sift(X, **kw))
        except EMDSiftCovergeError:
            return
        except Exception as e:
            h.fail('peel-never-raises', '%s: %s' % (type(e).__name__, e))
            return
        K = full.shape[1]
        if K >= 2:
            h.note('peel:two-imfs')
        if h.params['interp'] == 'splrep':
            h.observe('full', full)
        finite(h, full, 'sift')
        try:
            for k in range(1, K + 3):
                capped = np.asarray(S.sift(X, max_imfs=k, **kw))
                h.check(capped.ndim == 2 and capped.shape[0] == N and capped.shape[1] <= k, 'cap-respected', (k, capped.shape))
                h.note('cap:hit' if k <= K else 'cap:not-hit')
                h.check_eq(capped, full[:, :min(k, K)], 'capped-equals-prefix', (k, K))
            resid = X
            for k in range(K):
                nxt, flag = S.get_next_imf(resid, envelope_opts=env_opts, extrema_opts=ext_opts, **imf_opts)
                h.check_eq(np.asarray(nxt)[:, 0], full[:, k], 'column-is-next-imf-of-residual', k)
                resid = resid - full[:, k]
        except EMDSiftCovergeError:
            h.fail('peel-never-raises', 'capped / peeled run raised the convergence error although the uncapped run did not')
            return
        except Exception as e:
            h.fail('peel-never-raises', '%s: %s' % (type(e).__name__, e))
            return
    h.check(True, 'peel-never-raises')


MASK_IMF_OPTS = {'stop_method': 'fixed', 'max_iters': 1}


def peelmask(h):
    N = h.params['N']
    X = h.reals('x', N)
    freqs, nph = h.params['freqs'], h.params['nphases']
    kw = dict(mask_amp=1, mask_amp_mode='abs', mask_freqs=freqs, nphases=nph, imf_opts=dict(MASK_IMF_OPTS))
    with common.trace_sift(max_gni=200, max_env=2000):
        try:
            kmax = len(freqs) if isinstance(freqs, list) else 3
            full, used = S.mask_sift(X, max_imfs=kmax, ret_mask_freq=True, **kw)
            full = np.asarray(full)
            K = full.shape[1]
            if K >= 2:
                h.note('peel-mask:two-imfs')
            finite(h, full, 'mask_sift')
            for k in range(1, K + 1):
                capped = np.asarray(S.mask_sift(X, max_imfs=k, **kw))
                h.check(capped.ndim == 2 and capped.shape[0] == N and capped.shape[1] <= k, 'cap-respected', (k, capped.shape))
                h.check_eq(capped, full[:, :min(k, K)], 'mask-capped-equals-prefix', (k, K))
            resid = X
            for k in range(K):
                nxt, flag = S.get_next_imf_mask(resid, used[k], 1, nphases=nph, imf_opts=dict(MASK_IMF_OPTS))
                h.check_eq(np.asarray(nxt)[:, 0], full[:, k], 'mask-column-is-next-imf-of-residual', k)
                resid = resid - full[:, k]
        except EMDSiftCovergeError:
            return
        except Exception as e:
            h.fail('peel-never-raises', 'masked: %s: %s' % (type(e).__name__, e))
            return
    h.check(True, 'peel-never-raises')


def cap(h):
    variant, k, N = h.params['variant'], h.params['k'], h.params['N']
    imf_opts = {'stop_method': 'fixed', 'max_iters': 1}
    h.set_option('sqrt', 'abstract')
    h.set_option('mul', 'abstract')
    if h.symbolic:
        from symnp import stubs
        stubs.RNG.use_concrete(7)
    else:
        np.random.seed(7)
    extras = None
    with common.trace_sift(max_gni=400, max_env=4000):
        try:
            if variant == 'sift':
                X = h.reals('x', N)
                out = S.sift(X, max_imfs=k, imf_opts=imf_opts)
            elif variant == 'mask_sift':
                X = h.reals('x', N)
                out = S.mask_sift(X, max_imfs=k, mask_freqs=[0.3, 0.125, 0.05, 0.02], mask_amp=0.5, mask_amp_mode='abs',
                                  nphases=h.params['nphases'], imf_opts=imf_opts)
            elif variant == 'ensemble_sift':
                X = h.reals('x', N)
                out = S.ensemble_sift(X, nensembles=h.params['nens'], ensemble_noise=0.25, max_imfs=k, imf_opts=imf_opts)
            elif variant == 'complete_ensemble_sift':
                X = h.reals('x', N)
                out, extras = S.complete_ensemble_sift(X, nensembles=h.params['nens'], ensemble_noise=0.25, max_imfs=k,
                                                       imf_opts=imf_opts)
            elif variant == 'sift_second_layer':
                IA = two_columns(h, N, h.params['symcol'])
                out = S.sift_second_layer(IA, sift_args={'max_imfs': k, 'imf_opts': imf_opts})
            else:
                IA = two_columns(h, N, h.params['symcol'])
                out = S.mask_sift_second_layer(IA, [0.3, 0.125, 0.05, 0.02],
                                               sift_args={'max_imfs': k, 'imf_opts': imf_opts, 'mask_amp': 0.5,
                                                          'mask_amp_mode': 'abs', 'nphases': h.params['nphases']})
        except EMDSiftCovergeError:
            return
        except Exception as e:
            if variant == 'ensemble_sift' and isinstance(e, IndexError):
                return      # members with different numbers of IMFs: nothing is returned (outside the statement)
            h.fail('returns-array', '%s(max_imfs=%d): %s: %s' % (variant, k, type(e).__name__, e))
            return
    out = np.asarray(out)
    if variant.endswith('second_layer'):
        h.check(out.ndim == 3 and out.shape[0] == N and out.shape[1] == 2, 'returns-array', out.shape)
        h.check(out.ndim == 3 and out.shape[2] <= k, 'cap-respected', (variant, k, out.shape))
    else:
        h.check(out.ndim == 2 and out.shape[0] == N, 'returns-array', out.shape)
        h.check(out.ndim == 2 and out.shape[1] <= k, 'cap-respected', (variant, k, out.shape))
        if out.ndim == 2:
            h.note('cap:hit' if out.shape[1] == k else 'cap:not-hit')
    finite(h, out, variant)
