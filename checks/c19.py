"""C19 - array inputs are layout-insensitive, validated and never modified; repeated calls agree."""
import copy
import math

import numpy as np

import emd
from emd import sift as S
from emd import spectra, cycles as CY, utils
from emd.support import EMDSiftCovergeError

from checks import common

PROPERTY = 'C19'
FUNCTIONS = ['emd.support.ensure_vector / ensure_1d_with_singleton / ensure_2d / ensure_equal_dims', 'emd.sift.sift', 'emd.sift.get_next_imf',
             'emd.sift.mask_sift', 'emd.sift.get_next_imf_mask', 'emd.sift.ensemble_sift', 'emd.sift.complete_ensemble_sift',
             'emd.sift.sift_second_layer', 'emd.sift.mask_sift_second_layer', 'emd.sift.interp_envelope', 'emd.sift.get_padded_extrema',
             'emd.spectra.hilberthuang', 'emd.spectra.hilberthuang_1d', 'emd.spectra.holospectrum', 'emd.spectra.freq_from_phase',
             'emd.spectra.phase_from_freq', 'emd.cycles.get_cycle_vector', 'emd.cycles.get_cycle_stat', 'emd.cycles.phase_align',
             'emd.cycles.bin_by_phase', 'emd.cycles.Cycles.add_cycle_metric', 'emd.utils.amplitude_normalise', 'emd.utils.wrap_phase']
BOUNDS = {
    'quick': 'N = 5 symbolic samples (6 for the classic sift); every listed entry point is called on the layouts its contract accepts (results must be '
             'identical terms) and rejects (an exception is required), with read-only input arrays and option dictionaries compared before/after, '
             'and called twice (identical results)',
    'thorough': 'N = 7 for sift, get_next_imf, get_next_imf_mask, envelope, extrema, frequency and cycle-vector entry points, N = 6 for the other sift variants, N = 4 for the spectra and phase binning',
}
OUTSIDE = 'frequency_transform (FFT-based, not encodable - C09); byte-level comparison is replaced by term-for-term comparison in symbolic runs and ' \
          'by exact array comparison in replays; ensembles use a seeded noise stream re-seeded before each call'
ASSUMPTIONS = ['read-only numpy flags are honoured for object arrays (checked at start-up)', 'Pool inline; rilling/sd not used (fixed stop)']
REQUIRED_CLASSES = ['accepted-layouts-compared', 'rejected-layout-tested', 'mismatch-tested', 'options-compared']
EXPECTED_LABELS = ['layouts-give-identical-results', 'bad-layout-rejected', 'mismatched-lengths-rejected', 'inputs-not-modified',
                   'options-not-modified', 'repeat-call-identical']
BUDGET_S = {'quick': 170, 'thorough': 900}
OPTS = {'quick': {'sample_every': 29, 'concolic': False}, 'thorough': {'sample_every': 61, 'concolic': False}}
TWO_PI = 2 * math.pi
IMF = {'stop_method': 'fixed', 'max_iters': 1}

ENTRY = ['sift', 'get_next_imf', 'mask_sift', 'get_next_imf_mask', 'ensemble_sift', 'complete_ensemble_sift', 'second_layer',
         'mask_second_layer', 'envelope', 'extrema', 'hht', 'holo', 'freq', 'cycle_vector', 'cycle_stat', 'phase_align', 'bin_by_phase',
         'add_metric', 'normalise', 'wrap', 'equal_dims', 'repeat_after_config_edit']


def configs(tier):
    out = []
    for e in ENTRY:
        n = 6 if (e == 'sift' or tier != 'quick') and e not in ('hht', 'holo', 'phase_align', 'bin_by_phase', 'cycle_stat', 'normalise') else 5
        if e in ('hht', 'holo', 'bin_by_phase'):
            n = 3 if tier == 'quick' else 4
        if e in ('phase_align', 'normalise'):
            n = 5
        if e == 'repeat_after_config_edit':
            n = 6
        if tier != 'quick' and e in ('sift', 'get_next_imf', 'envelope', 'extrema', 'freq', 'cycle_vector', 'wrap', 'get_next_imf_mask'):
            n = 7
        if e == 'equal_dims':
            # the shared shape validator with *symbolic* shapes: 2-3 arrays of 1-2 dimensions, every extent in 1..4
            for narr, nd, dim in ((2, 1, None), (2, 2, None), (3, 1, None), (3, 1, 0), (2, 2, 0), (3, 2, None)):
                out.append(('equal_dims-%darr-%dd-dim%s' % (narr, nd, dim), {'entry': e, 'N': 2, 'narr': narr, 'nd': nd, 'dim': dim}))
            continue
        p = {'entry': e, 'N': n}
        if e in ('complete_ensemble_sift', 'mask_second_layer', 'normalise', 'mask_sift'):
            p['_budget_s'] = 25 if tier == 'quick' else 250
        out.append(('%s-N%d' % (e, n), p))
    return out


def ro(a):
    a = np.array(a, dtype=a.dtype, copy=True) if isinstance(a, np.ndarray) else np.array(a)
    if a.dtype == object:
        from symnp.stubs import SymArray
        a = a.view(SymArray)
    a.flags.writeable = False
    return a


def snapshot(a):
    return [v for v in np.asarray(a, dtype=object).flat], np.asarray(a).shape


def unchanged(a, snap):
    vals, shape = snap
    if np.asarray(a).shape != shape:
        return False
    for x, y in zip(np.asarray(a, dtype=object).flat, vals):
        if x is y:
            continue
        try:
            if isinstance(x, float) and isinstance(y, float) and math.isnan(x) and math.isnan(y):
                continue
            if not bool(x == y):
                return False
        except Exception:
            return False
    return True


def seed(h):
    if h.symbolic:
        from symnp import stubs
        stubs.RNG.use_concrete(9)
    else:
        np.random.seed(9)


class Case(object):
    """collects the verdicts of one entry point"""

    def __init__(self, h):
        self.h = h
        self.ok = {k: True for k in EXPECTED_LABELS}
        self.det = {}

    def bad(self, label, detail):
        if self.ok[label]:
            self.det[label] = detail
        self.ok[label] = False

    def run(self, f, *args, **kw):
        """call with read-only copies of all array arguments; returns ('ok', result) or ('err', exception)"""
        ro_args = [ro(a) if isinstance(a, np.ndarray) else a for a in args]
        snaps = [snapshot(a) if isinstance(a, np.ndarray) else None for a in ro_args]
        kw_before = copy.deepcopy({k: v for k, v in kw.items() if isinstance(v, (dict, list))})
        seed(self.h)
        try:
            r = ('ok', f(*ro_args, **kw))
        except EMDSiftCovergeError as e:
            r = ('err', e)
        except Exception as e:
            r = ('err', e)
            if isinstance(e, ValueError) and 'read-only' in str(e):
                self.bad('inputs-not-modified', '%s writes into its input: %s' % (getattr(f, '__name__', f), e))
        for a, s in zip(ro_args, snaps):
            if s is not None and not unchanged(a, s):
                self.bad('inputs-not-modified', getattr(f, '__name__', str(f)))
        for k, v in kw_before.items():
            self.h.note('options-compared')
            if not same_opts(kw[k], v):
                self.bad('options-not-modified', (getattr(f, '__name__', str(f)), k, str(kw[k])[:100], str(v)[:100]))
        return r

    def same_results(self, f, variants, **kw):
        """all accepted layouts give the same result; the first one is also repeated"""
        self.h.note('accepted-layouts-compared')
        res = [self.run(f, *v, **kw) for v in variants]
        rep = self.run(f, *variants[0], **kw)
        name = getattr(f, '__name__', str(f))
        if res[0][0] == 'err' and not isinstance(res[0][1], EMDSiftCovergeError):
            self.bad('layouts-give-identical-results', '%s rejects an accepted layout: %s' % (name, res[0][1]))
            return None
        for r in res[1:]:
            if r[0] != res[0][0]:
                self.bad('layouts-give-identical-results', '%s: %s vs %s' % (name, r[0], res[0][0]))
            elif r[0] == 'ok' and not equal(self.h, r[1], res[0][1]):
                self.bad('layouts-give-identical-results', name)
        if rep[0] != res[0][0] or (rep[0] == 'ok' and not equal(self.h, rep[1], res[0][1])):
            self.bad('repeat-call-identical', name)
        return res[0]

    def rejected(self, f, label, *args, **kw):
        self.h.note('rejected-layout-tested' if label == 'bad-layout-rejected' else 'mismatch-tested')
        r = self.run(f, *args, **kw)
        if r[0] != 'err' or isinstance(r[1], EMDSiftCovergeError):
            self.bad(label, '%s accepted %s' % (getattr(f, '__name__', str(f)), [np.asarray(a).shape for a in args if isinstance(a, np.ndarray)]))

    def finish(self):
        for k in EXPECTED_LABELS:
            self.h.check(self.ok[k], k, self.det.get(k))


def same_opts(a, b):
    if isinstance(a, dict) and isinstance(b, dict):
        return set(a) == set(b) and all(same_opts(a[k], b[k]) for k in a)
    if isinstance(a, (list, tuple)) and isinstance(b, (list, tuple)):
        return type(a) is type(b) and len(a) == len(b) and all(same_opts(x, y) for x, y in zip(a, b))
    if isinstance(a, np.ndarray) or isinstance(b, np.ndarray):
        return isinstance(a, np.ndarray) and isinstance(b, np.ndarray) and a.shape == b.shape and bool(np.all(a == b))
    return a == b and type(a) is type(b)


def equal(h, a, b):
    """exact equality of two results (tuples / arrays / scalars); symbolic entries must be the same term or provably equal"""
    if isinstance(a, tuple) or isinstance(b, tuple):
        return isinstance(a, tuple) and isinstance(b, tuple) and len(a) == len(b) and all(equal(h, x, y) for x, y in zip(a, b))
    a = np.asarray(a, dtype=object)
    b = np.asarray(b, dtype=object)
    if a.shape != b.shape:
        return False
    for x, y in zip(a.flat, b.flat):
        if x is y:
            continue
        if isinstance(x, float) and isinstance(y, float) and math.isnan(x) and math.isnan(y):
            continue
        if not bool(x == y):
            return False
    return True


class _Shaped(object):
    """stands for an array of which only the shape matters (ensure_equal_dims reads .shape and .ndim only)"""

    def __init__(self, shape):
        self.shape = tuple(shape)
        self.ndim = len(self.shape)


def equal_dims(h, c):
    from emd import support
    narr, nd, dim = h.params['narr'], h.params['nd'], h.params['dim']
    shapes = [[h.int('s%d_%d' % (i, j), lo=1, hi=4) for j in range(nd)] for i in range(narr)]
    if h.symbolic:
        arrs = [_Shaped(sh) for sh in shapes]
    else:
        arrs = [np.zeros(tuple(int(v) for v in sh)) for sh in shapes]
    dims = range(nd) if dim is None else [dim]
    same = all(bool(shapes[i][j] == shapes[0][j]) for i in range(1, narr) for j in dims)
    h.note('mismatch-tested')
    try:
        support.ensure_equal_dims(arrs, ['a%d' % i for i in range(narr)], 'verif', dim=dim)
        raised = False
    except ValueError:
        raised = True
    except Exception as ex:
        c.bad('mismatched-lengths-rejected', 'ensure_equal_dims: %s: %s' % (type(ex).__name__, ex))
        return
    if raised and same:
        c.bad('layouts-give-identical-results', 'ensure_equal_dims rejects equal shapes %s' % (shapes,))
    if not raised and not same:
        c.bad('mismatched-lengths-rejected', 'ensure_equal_dims accepts shapes %s (dim=%s)' % ([[int(v) for v in sh] for sh in shapes], dim))


def harness(h):
    e, N = h.params['entry'], h.params['N']
    c = Case(h)
    if e == 'equal_dims':
        equal_dims(h, c)
        c.finish()
        return
    h.set_option('sqrt', 'abstract')
    h.set_option('mul', 'abstract')
    x = h.reals('x', N, lo=-8, hi=8)
    x = np.asarray(x)
    col, col3 = x.reshape(N, 1), x.reshape(N, 1, 1)
    two = np.stack([x, x * 2], axis=1)
    row = x.reshape(1, N)
    cube = np.stack([two, two, two], axis=2)
    with common.trace_sift(max_gni=600, max_env=6000):
        if e in ('sift', 'get_next_imf', 'mask_sift', 'get_next_imf_mask', 'ensemble_sift', 'complete_ensemble_sift'):
            if e == 'sift':
                f, kw = S.sift, {'imf_opts': dict(IMF), 'envelope_opts': {'interp_method': 'splrep'}, 'extrema_opts': {'pad_width': 2}}
            elif e == 'get_next_imf':
                f, kw = S.get_next_imf, dict(IMF, envelope_opts={'interp_method': 'splrep'}, extrema_opts={'pad_width': 2})
            elif e == 'mask_sift':
                f, kw = S.mask_sift, {'mask_freqs': [0.3, 0.125], 'mask_amp': 0.5, 'mask_amp_mode': 'abs', 'nphases': 1, 'max_imfs': 2,
                                      'imf_opts': dict(IMF), 'extrema_opts': {'pad_width': 2}}
            elif e == 'get_next_imf_mask':
                f = lambda X, **k: S.get_next_imf_mask(X, 0.3, 0.5, nphases=1, **k)    # noqa: E731
                kw = {'imf_opts': dict(IMF), 'extrema_opts': {'pad_width': 2}}
            elif e == 'ensemble_sift':
                f, kw = S.ensemble_sift, {'nensembles': 1, 'max_imfs': 1, 'imf_opts': dict(IMF)}
            else:
                f, kw = S.complete_ensemble_sift, {'nensembles': 1, 'max_imfs': 1, 'imf_opts': dict(IMF)}
            c.same_results(f, [(x,), (col,), (col3,)], **kw)
            for bad in (two, row, cube):
                c.rejected(f, 'bad-layout-rejected', bad, **kw)
        elif e in ('second_layer', 'mask_second_layer'):
            conc = np.array([0.5, -1.0, 2.0, -0.25, 1.5, -0.75][:N])
            if h.symbolic:
                from symnp.stubs import as_obj
                conc = as_obj(conc)
            IA = np.stack([x, conc], axis=1)
            args = {'imf_opts': dict(IMF), 'max_imfs': 2}
            if e == 'second_layer':
                c.same_results(lambda A, **k: S.sift_second_layer(A, **k), [(IA,)], sift_args=args)
            else:
                args.update(mask_amp=0.5, mask_amp_mode='abs', nphases=1)
                c.same_results(lambda A, **k: S.mask_sift_second_layer(A, [0.3, 0.125, 0.05], **k), [(IA,)], sift_args=dict(args))
                args.pop('max_imfs')
                c.same_results(lambda A, **k: S.mask_sift_second_layer(A, [0.3, 0.125, 0.05], **k), [(IA,)], sift_args=dict(args))
        elif e == 'envelope':
            c.same_results(lambda X, **k: S.interp_envelope(X, mode='upper', **k), [(x,), (col,)], extrema_opts={'pad_width': 2})
        elif e == 'extrema':
            c.same_results(lambda X, **k: S.get_padded_extrema(X, pad_width=2, **k), [(x,), (col,)],
                           loc_pad_opts={'mode': 'reflect', 'reflect_type': 'odd'}, mag_pad_opts={'mode': 'median', 'stat_length': 1})
        elif e == 'repeat_after_config_edit':
            # 'repeating a deterministic call gives an identical result' - also after somebody edited a configuration object
            # obtained from the library (defaults must not be shared state)
            calls = [('get_padded_extrema', lambda X: S.get_padded_extrema(X, pad_width=2)),
                     ('sift', lambda X: S.sift(X, max_imfs=2, imf_opts=dict(IMF)))]
            first = [c.run(f, x) for _, f in calls]
            cfgs = [S.get_config(v) for v in ('sift', 'mask_sift')]
            for cfg in cfgs:
                cfg['extrema_opts/mag_pad_opts/stat_length'] = 3
                cfg['extrema_opts/mag_pad_opts/mode'] = 'mean'
                cfg['extrema_opts/loc_pad_opts/reflect_type'] = 'even'
                cfg['imf_opts/stop_method'] = 'fixed'
            again = [c.run(f, x) for _, f in calls]
            for (nm, _), r1, r2 in zip(calls, first, again):
                if r1[0] != r2[0] or (r1[0] == 'ok' and not equal(h, r1[1], r2[1])):
                    c.bad('repeat-call-identical', '%s with default options changes after editing a configuration object' % nm)
            fresh = S.get_config('sift')
            if not same_opts(fresh['extrema_opts/mag_pad_opts'], {'mode': 'median', 'stat_length': 1}):
                c.bad('repeat-call-identical', 'get_config defaults changed after editing another configuration object')
            h.note('accepted-layouts-compared')
        elif e == 'hht':
            a = np.asarray(h.reals('a', N))
            edges = np.array([1.0, 3.0, 5.0])
            c.same_results(lambda F, A: spectra.hilberthuang(F, A, edges), [(x, a), (x.reshape(N, 1), a.reshape(N, 1))])
            c.same_results(lambda F, A: spectra.hilberthuang_1d(F, A, edges), [(x.reshape(N, 1), a.reshape(N, 1))])
            c.rejected(lambda F, A: spectra.hilberthuang(F, A, edges), 'mismatched-lengths-rejected', x, a[:-1])
            c.rejected(lambda F, A: spectra.hilberthuang(F, A, edges), 'mismatched-lengths-rejected', x.reshape(N, 1), np.stack([a, a], axis=1))
            # same element count, transposed: the per-dimension differences cancel
            c.rejected(lambda F, A: spectra.hilberthuang(F, A, edges), 'mismatched-lengths-rejected', np.stack([x, x], axis=1), np.stack([a, a], axis=0))
        elif e == 'holo':
            f2 = np.asarray(h.reals('f2', N)).reshape(N, 1, 1)
            a2 = np.asarray(h.reals('a2', N)).reshape(N, 1, 1)
            e1, e2 = np.array([1.0, 3.0, 5.0]), np.array([0.0, 1.0, 3.0])
            c.same_results(lambda F, F2, A2: spectra.holospectrum(F, F2, A2, e1, e2), [(x.reshape(N, 1), f2, a2)])
            c.rejected(lambda F, F2, A2: spectra.holospectrum(F, F2, A2, e1, e2), 'mismatched-lengths-rejected', x.reshape(N, 1)[:-1], f2, a2)
        elif e == 'freq':
            c.same_results(lambda P: spectra.freq_from_phase(P, 128), [(col,)])
            c.same_results(lambda P: spectra.phase_from_freq(P, 128), [(col,)])
            r1 = c.run(lambda P: spectra.freq_from_phase(P, 128), x)
            r2 = c.run(lambda P: spectra.freq_from_phase(P, 128), col)
            if r1[0] == 'ok' and r2[0] == 'ok' and not equal(h, np.asarray(r1[1]).ravel(), np.asarray(r2[1]).ravel()):
                c.bad('layouts-give-identical-results', 'freq_from_phase vector vs column')
        elif e == 'cycle_vector':
            ph = np.asarray(h.reals('p', N, lo=0, hi=TWO_PI, hi_open=True))
            mask = np.array([True] * N)
            c.same_results(lambda P: CY.get_cycle_vector(P, return_good=True), [(ph,), (ph.reshape(N, 1),)])
            c.same_results(lambda P, M: CY.get_cycle_vector(P, return_good=True, mask=M), [(ph, mask), (ph.reshape(N, 1), mask.reshape(N, 1))])
            c.rejected(lambda P, M: CY.get_cycle_vector(P, return_good=True, mask=M), 'mismatched-lengths-rejected', ph, mask[:-1])
        elif e == 'cycle_stat':
            cv = np.array([0, 0, 1, 1, -1][:N])
            c.same_results(lambda C_, V: CY.get_cycle_stat(C_, V, func=np.sum), [(cv, x), (cv, col), (cv.reshape(N, 1), x)])
            c.rejected(lambda C_, V: CY.get_cycle_stat(C_, V, func=np.sum), 'mismatched-lengths-rejected', cv, x[:-1])
            c.rejected(lambda C_, V: CY.get_cycle_stat(C_, V, func=np.sum), 'bad-layout-rejected', cv, two)
        elif e == 'phase_align':
            ph = np.asarray(h.reals('p', N, lo=0, hi=TWO_PI, hi_open=True))
            for i in range(N - 1):
                if i == 1:
                    h.assume(ph[i] - ph[i + 1] > 1.5 * math.pi)
                else:
                    h.assume(ph[i + 1] > ph[i])
                    h.assume(ph[i + 1] - ph[i] < 1.5 * math.pi)
            c.same_results(lambda P, V: CY.phase_align(P, V, npoints=2), [(ph, x), (ph.reshape(N, 1), col)])
            c.rejected(lambda P, V: CY.phase_align(P, V, npoints=2), 'mismatched-lengths-rejected', ph, x[:-1])
        elif e == 'bin_by_phase':
            ph = np.asarray(h.reals('p', N, lo=0, hi=TWO_PI, hi_open=True))
            c.same_results(lambda P, V: CY.bin_by_phase(P, V, nbins=2)[0], [(ph, x), (ph.reshape(N, 1), x)])
            c.rejected(lambda P, V: CY.bin_by_phase(P, V, nbins=2), 'mismatched-lengths-rejected', ph, x[:-1])
            # three arrays whose length errors cancel (N, N+1, N-1)
            c.rejected(lambda P, V, W: CY.bin_by_phase(P, V, nbins=2, weights=W), 'mismatched-lengths-rejected', ph, np.concatenate([x, x[:1]]), np.ones(N - 1))
        elif e == 'add_metric':
            ph = np.asarray(h.reals('p', N, lo=0, hi=TWO_PI, hi_open=True))
            h.assume(ph[0] - ph[1] > 1.5 * math.pi)
            for i in range(1, N - 1):
                h.assume(abs(ph[i + 1] - ph[i]) < 1.5 * math.pi)
            C = CY.Cycles(ph)
            vals = np.array([1.5, float('nan')])
            c.run(lambda V: C.add_cycle_metric('m', V, dtype=int), vals)
            c.run(lambda V: C.compute_cycle_metric('s', V, np.sum), x)
            h.note('accepted-layouts-compared')
        elif e == 'normalise':
            c.same_results(lambda X: utils.amplitude_normalise(X), [(col,)])
            r3 = c.run(lambda X: utils.amplitude_normalise(X), col3)      # second-layer layout (n, 1, 1)
            r2 = c.run(lambda X: utils.amplitude_normalise(X), col)
            if r3[0] != r2[0] or (r3[0] == 'ok' and not equal(h, np.asarray(r3[1]).ravel(), np.asarray(r2[1]).ravel())):
                c.bad('layouts-give-identical-results', 'amplitude_normalise (n,1) vs (n,1,1)')
        elif e == 'wrap':
            c.same_results(lambda X: utils.wrap_phase(X), [(x,)])
            r1, r2 = c.run(utils.wrap_phase, x), c.run(utils.wrap_phase, col)
            if r1[0] == 'ok' and r2[0] == 'ok' and not equal(h, np.asarray(r1[1]).ravel(), np.asarray(r2[1]).ravel()):
                c.bad('layouts-give-identical-results', 'wrap_phase vector vs column')
    c.finish()
