"""debug helper: python tools/dbg.py C13 container-N3 [maxpaths] -- prints concolic mismatches / unconfirmed with inputs"""
import sys, importlib, json
sys.path.insert(0, '/verif'); sys.path.insert(0, '/repo')
from symnp import runner, core
runner._quiet()
prop, cfg = sys.argv[1], sys.argv[2]
maxp = int(sys.argv[3]) if len(sys.argv) > 3 else 100000
mod = importlib.import_module('checks.' + prop.lower())
params = dict(mod.configs('thorough') + mod.configs('quick'))[cfg]
opts = {'timeout_ms': 5000, 'sample_every': 1, 'concolic': True, 'want_sample': True}
stack = [[]]; n = 0; shown = 0
while stack and n < maxp:
    p = stack.pop(); n += 1
    r = runner.run_path(mod, params, p, dict(opts))
    stack.extend(r.pop('pending'))
    bad = (r['concolic'] and not r['concolic']['agree']) or r['unconfirmed'] or r['status'] != 'ok'
    if bad and shown < 5:
        shown += 1
        print('PATH', p, r['status'], r['reason'])
        print('  sample', json.dumps(r['sample'])[:600])
        print('  concolic', r['concolic'])
        for u in r['unconfirmed'][:2]:
            print('  UNCONF', u['label'], u['detail'], u['values'], u.get('replay_error'), u.get('concrete_failures'))
print('paths', n, 'left', len(stack))
