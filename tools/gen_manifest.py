#!/usr/bin/env python3
"""Regenerates /verif/MANIFEST.json from the check modules present in /verif/checks."""
import importlib
import json
import os
import sys

HERE = os.path.dirname(os.path.dirname(os.path.abspath(__file__)))
sys.path.insert(0, HERE)
sys.path.insert(0, '/repo')

props = [json.loads(l) for l in open(os.path.join(HERE, 'properties.jsonl'))]
NA_FILE = os.path.join(HERE, 'tools', 'not_applicable.json')
na_reasons = json.load(open(NA_FILE)) if os.path.exists(NA_FILE) else {}
hooks_file = os.path.join(HERE, 'tools', 'hook_commits.json')
hook_commits = json.load(open(hooks_file)) if os.path.exists(hooks_file) else []

checks = []
na = []
for p in props:
    pid = p['id']
    path = os.path.join(HERE, 'checks', pid.lower() + '.py')
    if not os.path.exists(path) or pid in na_reasons:
        na.append({'property_id': pid, 'reason': na_reasons.get(pid, 'check not built yet in this round (planned: DESIGN.md section 2)')})
        continue
    mod = importlib.import_module('checks.' + pid.lower())
    checks.append({
        'property_id': pid,
        'quick_cmd': './vcheck %s quick' % pid,
        'thorough_cmd': './vcheck %s thorough' % pid,
        'evidence_file': 'evidence/%s.json' % pid,
        'replay_cmd_template': './vcheck replay {path}',
        'engine': 'symnp',
        'level_claimed': {
            'category': 'model_checking',
            'text': getattr(mod, 'LEVEL_TEXT', 'Bounded symbolic execution of the real emd functions: every feasible path class within the '
                    'stated bound is explored and the property is discharged per class by z3 (PC and not property unsat); '
                    'nothing is claimed outside the bound or about float rounding.'),
            'design_ref': 'DESIGN.md section 2 (%s), section 1 (engine)' % pid,
        },
        'level_note': getattr(mod, 'LEVEL_NOTE', 'Trusted: z3, CPython, numpy object-array semantics, the stubs listed in the evidence '
                      '(each validated against the real library on every run where stated). Bounds: ' + str(getattr(mod, 'BOUNDS', {}).get('quick', ''))),
        'technique': getattr(mod, 'TECHNIQUE', 'solver-based bounded symbolic execution of the real Python code (z3, model-guided path forking) + concrete replay'),
    })

manifest = {
    'version': 1,
    'setup_cmd': './setup.sh',
    'hooks': {
        'guard': 'AJQUINN_EMD_MIRROR_VERIF',
        'enable': 'export AJQUINN_EMD_MIRROR_VERIF=1 (and AJQUINN_EMD_MIRROR_VERIF_TRACE=<dir>) before importing emd; pure Python, no rebuild',
        'baseline_off_cmd': '/verif/tools/baseline.sh',
        'source_commits': hook_commits,
        'add_only': True,
    },
    'engines': [{
        'name': 'symnp', 'path': 'symnp/',
        'serves_properties': [c['property_id'] for c in checks],
        'kind_free_text': 'bounded symbolic executor: real emd modules run on numpy object arrays of z3-backed scalars; '
                          'branches decided by the solver; DFS by re-execution over 16 processes; counterexamples replayed on the real code',
    }],
    'checks': checks,
    'not_applicable': na,
    'notes': 'See DESIGN.md. Exit codes: 0 held on everything explored, 1 VIOLATION (replayed on the real code), 3 harness error/vacuity.',
}
json.dump(manifest, open(os.path.join(HERE, 'MANIFEST.json'), 'w'), indent=1)
print("MANIFEST: %d checks, %d not_applicable" % (len(checks), len(na)))
