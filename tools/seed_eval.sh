#!/bin/bash
# usage: tools/seed_eval.sh <PROP> <worktree-with-change-applied> <seed-name> [checks...]
# 1. confirms the agent's demo fails with the change and passes without it, and that the test suite passes with the change
# 2. stores patch + demo under /verif/seeded/<name>/
# 3. runs the given checks (default: the property's quick check) against the worktree (EMD_VERIF_REPO), with evidence and
#    replays redirected to a scratch directory - /repo and /verif/evidence are not touched
P=$1; WT=$2; NAME=${3:-$P}; shift 3 2>/dev/null
CHECKS=${@:-$P}
set -u
cd $WT || exit 2
git diff -- emd > /tmp/seed-$NAME.diff
[ -s /tmp/seed-$NAME.diff ] || { echo "no change in $WT"; exit 2; }
DEMO=$(ls demo_*.py | head -1)
PYTHONPATH=$WT /venv/bin/python $DEMO > /tmp/seed-$NAME.with.log 2>&1; RC_WITH=$?
git apply -R /tmp/seed-$NAME.diff
PYTHONPATH=$WT /venv/bin/python $DEMO > /tmp/seed-$NAME.without.log 2>&1; RC_WITHOUT=$?
git apply /tmp/seed-$NAME.diff
echo "demo: with change rc=$RC_WITH, without rc=$RC_WITHOUT"
PYTHONPATH=$WT /venv/bin/python -m pytest -q -p no:cacheprovider --timeout=900 emd/tests 2>&1 | tail -1
mkdir -p /verif/seeded/$NAME
cp /tmp/seed-$NAME.diff /verif/seeded/$NAME/patch.diff
cp $DEMO /verif/seeded/$NAME/
SCR=$(mktemp -d /tmp/seed-run-XXXX)
cd /verif
RES=""
for c in $CHECKS; do
  EMD_VERIF_REPO=$WT VERIF_EVIDENCE_DIR=$SCR/evidence VERIF_REPLAY_DIR=$SCR/replays ./vcheck $c quick > /tmp/seed-$NAME.$c.log 2>&1; rc=$?
  echo "check $c rc=$rc: $(grep -E '^(VIOLATION|HARNESS|OK|KNOWN)' /tmp/seed-$NAME.$c.log | head -2 | cut -c1-250 | tr '\n' ' ')"
  grep -A1 -E '^VIOLATION' /tmp/seed-$NAME.$c.log | grep -v '^VIOLATION' | head -2
  RES="$RES $c:$rc"
done
rm -rf $SCR
echo "RESULT $NAME demo_with=$RC_WITH demo_without=$RC_WITHOUT checks:$RES"
