#!/bin/bash
# usage: tools/run_all.sh quick|thorough [IDs...]   - runs the registered checks one after the other on the current /repo tree
TIER=${1:-quick}; shift
cd /verif
IDS=${@:-$(python3 -c "import json; print(' '.join(c['property_id'] for c in json.load(open('MANIFEST.json'))['checks']))")}
for id in $IDS; do
  s=$(date +%s)
  ./vcheck $id $TIER > /tmp/runall-$id-$TIER.log 2>&1; rc=$?
  e=$(date +%s)
  echo "$id rc=$rc $((e-s))s $(grep -E '^(OK|VIOLATION|HARNESS-ERROR|KNOWN-FINDING)' /tmp/runall-$id-$TIER.log | head -2 | cut -c1-220 | tr '\n' ' ')"
done
