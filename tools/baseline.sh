#!/bin/bash
# Runs the repository's pinned baseline (guard OFF) and checks that all 33 stable tests pass.
unset AJQUINN_EMD_MIRROR_VERIF AJQUINN_EMD_MIRROR_VERIF_TRACE
OUT=$(mktemp /tmp/emd-baseline-XXXX.xml)
cd /repo && /venv/bin/python -m pytest -ra -q -p no:cacheprovider --timeout=900 --continue-on-collection-errors --junitxml=$OUT >/tmp/emd-baseline.log 2>&1
/venv/bin/python - "$OUT" <<'PY'
import json, sys, xml.etree.ElementTree as ET
base = json.load(open('/root/.vp/BASELINE.json'))
root = ET.parse(sys.argv[1]).getroot()
res = {}
for tc in root.iter('testcase'):
    name = tc.get('classname') + '::' + tc.get('name')
    bad = any(ch.tag in ('failure', 'error', 'skipped') for ch in tc)
    res[name] = not bad
missing = [t for t in base['stable_pass'] if not res.get(t)]
print("baseline: %d/%d stable tests pass; total passing %d" % (len(base['stable_pass']) - len(missing), len(base['stable_pass']), sum(res.values())))
for m in missing:
    print("  NOT PASSING:", m)
sys.exit(1 if missing else 0)
PY
RC=$?
rm -f "$OUT"
exit $RC
