#!/bin/bash
# usage: tools/wt_eval.sh <worktree> <tier> <checks...>  - run checks against a scratch worktree (evidence/replays go to a scratch dir)
WT=$1; TIER=$2; shift 2
SCR=$(mktemp -d /tmp/wt-run-XXXX)
cd /verif
for c in "$@"; do
  s=$(date +%s)
  EMD_VERIF_REPO=$WT VERIF_EVIDENCE_DIR=$SCR/evidence VERIF_REPLAY_DIR=$SCR/replays ./vcheck $c $TIER > $SCR/$c.log 2>&1; rc=$?
  echo "$(basename $WT) $c rc=$rc $(( $(date +%s) - s ))s $(grep -E '^(VIOLATION|HARNESS|OK|KNOWN)' $SCR/$c.log | head -2 | cut -c1-300 | tr '\n' ' ')"
  grep -A1 -E '^VIOLATION' $SCR/$c.log | grep -v '^VIOLATION' | head -2
  [ $rc -ne 0 ] && cp $SCR/$c.log /tmp/wt-fail-$(basename $WT)-$c.log
done
rm -rf $SCR
