#!/bin/bash
# Offline bootstrap of the verification environment.
#  /verif/.venv  = overlay venv on top of /venv (which holds numpy/scipy/pandas/yaml and the editable `emd` from /repo)
#                  plus z3-solver (and cvc5, crosshair-tool when present) from the offline wheelhouse.
# Idempotent; every check command calls it first so that a tree with committed files only also works.
set -e
HERE="$(cd "$(dirname "$0")" && pwd)"
VENV="$HERE/.venv"
WHEELS=/opt/veriftools/wheels
STAMP="$VENV/.stamp-v1"
if [ -f "$STAMP" ]; then exit 0; fi
(
  flock 9
  if [ -f "$STAMP" ]; then exit 0; fi
  rm -rf "$VENV"
  /venv/bin/python -m venv "$VENV" >/dev/null
  SP=$("$VENV/bin/python" -c "import sysconfig;print(sysconfig.get_paths()['purelib'])")
  echo "import site; site.addsitedir('/venv/lib/python3.12/site-packages')" > "$SP/zz_overlay.pth"
  PIP_NO_INDEX=1 "$VENV/bin/pip" install -q --no-index --find-links "$WHEELS" z3-solver >/dev/null 2>&1 || {
      echo "setup: cannot install z3-solver from $WHEELS" >&2; exit 2; }
  PIP_NO_INDEX=1 "$VENV/bin/pip" install -q --no-index --find-links "$WHEELS" cvc5 >/dev/null 2>&1 || echo "setup: cvc5 wheel not installed (optional)" >&2
  "$VENV/bin/python" -c "import z3, numpy, scipy, yaml; import emd" >/dev/null 2>&1 || {
      echo "setup: import check failed" >&2; exit 2; }
  touch "$STAMP"
) 9>"$HERE/.setup.lock"
